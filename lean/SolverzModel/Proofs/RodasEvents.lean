/-
  Proofs/RodasEvents.lean — the event search of `Rodas` for ARBITRARY event functions.

  `E.gfun` may be any function (component → time → value): along one accepted step the user's
  `event(t, y)` is evaluated at `(τ, dense output at τ)`, which is a function of τ.  The lemmas
  here carry a genuine-sign-change invariant through the bisection:

      Inv (tL, tR, tev, v0, v1)  :=  tL ≤ tev ≤ tR ∧ v0 = g_i tL ∧ v1 = g_i tR ∧ opp v0 v1

  and bound the width of the final bracket.
-/
import SolverzModel.Core.Ctl.Rodas
import SolverzModel.Proofs.Rodas
import Mathlib.Tactic.Linarith
import Mathlib.Tactic.Ring
import Mathlib.Tactic.FieldSimp
import Mathlib.Tactic.Positivity
namespace Solverz
namespace RodasEnv

/-- value of event component `i` at time `τ` (what `event(τ, y(τ))[i]` is along the step) -/
def evalAt {α : Type} (E : RodasEnv α) (i : Nat) (τ : α) : α := (E.evalEvents τ).getD i E.O.zero

/-- with `gfun := some g` the component values are those of `g`, whatever `g` is -/
theorem evalAt_gfun {α : Type} (E : RodasEnv α) (g : Nat → α → α) (hg : E.gfun = some g) (i : Nat) (hi : i < E.events.length)
    (τ : α) : E.evalAt i τ = g i τ := by
  simp [evalAt, evalEvents, hg, List.getD_eq_getElem?_getD, hi]

theorem evalEvents_length {α : Type} (E : RodasEnv α) (τ : α) : (E.evalEvents τ).length = E.events.length := by
  unfold evalEvents; split <;> simp

section Q
variable (E : RodasEnv ℚ)

/-- the genuine-sign-change invariant of the bisection state -/
def BInv (i : Nat) (st : ℚ × ℚ × ℚ × ℚ × ℚ) : Prop :=
  st.1 ≤ st.2.2.1 ∧ st.2.2.1 ≤ st.2.1 ∧ st.2.2.2.1 = E.evalAt i st.1 ∧ st.2.2.2.2 = E.evalAt i st.2.1 ∧
    E.opp st.2.2.2.1 st.2.2.2.2 = true

theorem opp_iff (hO : E.O = ratO) (a b : ℚ) : E.opp a b = true ↔ (0 < a ∧ b < 0) ∨ (a < 0 ∧ 0 < b) := by
  have hlt : ∀ x y : ℚ, E.O.lt x y = decide (x < y) := by intro x y; rw [hO]; rfl
  have hz : E.O.zero = 0 := by rw [hO]; rfl
  simp [opp, hlt, hz]

/-- one pass of the bisection body under the invariant: either the bracket shrinks to a sub-bracket that still has a genuine
sign change (and the new trial point is its midpoint), or the trial point is an exact zero of the event function -/
theorem bisectStep_inv (hO : E.O = ratO) (hh : E.half = 1 / 2) (i : Nat) (st : ℚ × ℚ × ℚ × ℚ × ℚ) (h : E.BInv i st) :
    ((E.bisectStep i st).1 = true ∧ E.BInv i (E.bisectStep i st).2 ∧ st.1 ≤ (E.bisectStep i st).2.1 ∧
        (E.bisectStep i st).2.2.1 ≤ st.2.1 ∧
        (E.bisectStep i st).2.2.2.1 = ((E.bisectStep i st).2.1 + (E.bisectStep i st).2.2.1) / 2 ∧
        (E.bisectStep i st).2.2.1 - (E.bisectStep i st).2.1 ≤ st.2.1 - st.1 ∧
        (st.2.2.1 = (st.1 + st.2.1) / 2 → (E.bisectStep i st).2.2.1 - (E.bisectStep i st).2.1 = (st.2.1 - st.1) / 2)) ∨
    ((E.bisectStep i st).1 = false ∧ (E.bisectStep i st).2 = st ∧ E.evalAt i st.2.2.1 = 0) := by
  obtain ⟨tL, tR, tev, v0, v1⟩ := st
  obtain ⟨h1, h2, h3, h4, h5⟩ := h
  simp only at h1 h2 h3 h4 h5
  have hmul : ∀ a b : ℚ, E.O.mul a b = a * b := by intro a b; rw [hO]; rfl
  have hadd : ∀ a b : ℚ, E.O.add a b = a + b := by intro a b; rw [hO]; rfl
  have hvi : (E.evalEvents tev).getD i E.O.zero = E.evalAt i tev := rfl
  simp only [bisectStep, hvi]
  by_cases c1 : E.opp v1 (E.evalAt i tev) = true
  · left
    simp only [c1, if_true, hmul, hadd, hh]
    refine ⟨trivial, ⟨?_, ?_, rfl, h4, ?_⟩, h1, le_refl _, by ring, by linarith, ?_⟩
    · show tev ≤ 1 / 2 * (tev + tR); linarith
    · show 1 / 2 * (tev + tR) ≤ tR; linarith
    · show E.opp (E.evalAt i tev) v1 = true
      rw [opp_iff E hO] at c1 ⊢; tauto
    · intro hm; rw [hm]; ring
  · have c1' : E.opp v1 (E.evalAt i tev) = false := by simpa using c1
    by_cases c2 : E.opp v0 (E.evalAt i tev) = true
    · left
      simp only [c1', c2, Bool.false_eq_true, if_false, if_true, hmul, hadd, hh]
      refine ⟨trivial, ⟨?_, ?_, h3, rfl, c2⟩, le_refl _, h2, by ring, by linarith, ?_⟩
      · show tL ≤ 1 / 2 * (tL + tev); linarith
      · show 1 / 2 * (tL + tev) ≤ tev; linarith
      · intro hm; rw [hm]; ring
    · right
      have c2' : E.opp v0 (E.evalAt i tev) = false := by simpa using c2
      simp only [c1', c2', Bool.false_eq_true, if_false]
      refine ⟨by simp, by simp, ?_⟩
      rw [opp_iff E hO] at c1 c2 h5
      rcases h5 with ⟨ha, hb⟩ | ⟨ha, hb⟩
      · have : ¬ (0 < E.evalAt i tev) := fun hp => c1 (Or.inr ⟨hb, hp⟩)
        have : ¬ (E.evalAt i tev < 0) := fun hn => c2 (Or.inl ⟨ha, hn⟩)
        linarith [le_of_not_gt ‹¬ (0 < E.evalAt i tev)›, le_of_not_gt ‹¬ (E.evalAt i tev < 0)›]
      · have : ¬ (E.evalAt i tev < 0) := fun hn => c1 (Or.inl ⟨hb, hn⟩)
        have : ¬ (0 < E.evalAt i tev) := fun hp => c2 (Or.inr ⟨ha, hp⟩)
        linarith [le_of_not_gt ‹¬ (0 < E.evalAt i tev)›, le_of_not_gt ‹¬ (E.evalAt i tev < 0)›]

/-- what the search returns: a time inside a sub-bracket `[a, b]` of the initial bracket across which the event function
genuinely changes sign -/
def Located (i : Nat) (tL tR r : ℚ) (a b : ℚ) : Prop :=
  tL ≤ a ∧ a ≤ r ∧ r ≤ b ∧ b ≤ tR ∧ E.opp (E.evalAt i a) (E.evalAt i b) = true

/-- the trial point is the midpoint of the bracket: `fuel` passes leave a bracket of width ≤ (tR − tL) / 2^fuel -/
theorem bisect_located_mid (hO : E.O = ratO) (hh : E.half = 1 / 2) (i : Nat) (tol : ℚ) (fuel : Nat)
    (st : ℚ × ℚ × ℚ × ℚ × ℚ) (le : Option ℚ) (h : E.BInv i st) (hm : st.2.2.1 = (st.1 + st.2.1) / 2) :
    ∃ a b, E.Located i st.1 st.2.1 (E.bisect i tol fuel st le).1 a b ∧
      (E.evalAt i (E.bisect i tol fuel st le).1 = 0 ∨ b - a < tol ∨ b - a ≤ (st.2.1 - st.1) / 2 ^ fuel) := by
  have hlt : ∀ x y : ℚ, E.O.lt x y = decide (x < y) := by intro x y; rw [hO]; rfl
  have hsub : ∀ a b : ℚ, E.O.sub a b = a - b := by intro a b; rw [hO]; rfl
  induction fuel generalizing st le with
  | zero =>
    obtain ⟨h1, h2, h3, h4, h5⟩ := h
    refine ⟨st.1, st.2.1, ⟨le_refl _, h1, h2, le_refl _, ?_⟩, Or.inr (Or.inr (by simp))⟩
    rw [← h3, ← h4]; exact h5
  | succ n ih =>
    have hb := bisectStep_inv E hO hh i st h
    simp only [bisect]
    rcases hb with ⟨hc, hinv, hl, hr, hmid, _, hhalf⟩ | ⟨hc, heq, hz⟩
    · have hw := hhalf hm
      by_cases hcont : (E.bisectStep i st).1 && !(E.O.lt (E.O.sub (E.bisectStep i st).2.2.1 (E.bisectStep i st).2.1) tol)
      · simp only [hcont, if_true]
        obtain ⟨a, b, ⟨l1, l2, l3, l4, l5⟩, hfin⟩ := ih (E.bisectStep i st).2 (some st.2.2.1) hinv hmid
        refine ⟨a, b, ⟨le_trans hl l1, l2, l3, le_trans l4 hr, l5⟩, ?_⟩
        rcases hfin with hf | hf | hf
        · exact Or.inl hf
        · exact Or.inr (Or.inl hf)
        · refine Or.inr (Or.inr (le_trans hf (le_of_eq ?_)))
          rw [hw, pow_succ]; field_simp
      · simp only [hcont]
        have hcont' : E.O.lt (E.O.sub (E.bisectStep i st).2.2.1 (E.bisectStep i st).2.1) tol = true := by
          simpa [hc] using hcont
        rw [hlt, hsub, decide_eq_true_eq] at hcont'
        obtain ⟨i1, i2, i3, i4, i5⟩ := hinv
        refine ⟨(E.bisectStep i st).2.1, (E.bisectStep i st).2.2.1, ⟨hl, i1, i2, hr, ?_⟩, Or.inr (Or.inl hcont')⟩
        rw [← i3, ← i4]; exact i5
    · simp only [hc, Bool.false_and, Bool.false_eq_true, if_false, heq]
      obtain ⟨h1, h2, h3, h4, h5⟩ := h
      refine ⟨st.1, st.2.1, ⟨le_refl _, h1, h2, le_refl _, ?_⟩, Or.inl hz⟩
      rw [← h3, ← h4]; exact h5

/-- any trial point inside the bracket (the secant start): after the first pass the trial point is a midpoint, so `fuel` passes
leave a bracket of width ≤ (tR − tL) / 2^(fuel − 1) -/
theorem bisect_located (hO : E.O = ratO) (hh : E.half = 1 / 2) (i : Nat) (tol : ℚ) (fuel : Nat)
    (st : ℚ × ℚ × ℚ × ℚ × ℚ) (le : Option ℚ) (h : E.BInv i st) :
    ∃ a b, E.Located i st.1 st.2.1 (E.bisect i tol fuel st le).1 a b ∧
      (E.evalAt i (E.bisect i tol fuel st le).1 = 0 ∨ b - a < tol ∨ b - a ≤ (st.2.1 - st.1) / 2 ^ (fuel - 1)) := by
  have hlt : ∀ x y : ℚ, E.O.lt x y = decide (x < y) := by intro x y; rw [hO]; rfl
  have hsub : ∀ a b : ℚ, E.O.sub a b = a - b := by intro a b; rw [hO]; rfl
  cases fuel with
  | zero =>
    obtain ⟨h1, h2, h3, h4, h5⟩ := h
    refine ⟨st.1, st.2.1, ⟨le_refl _, h1, h2, le_refl _, ?_⟩, Or.inr (Or.inr (by simp))⟩
    rw [← h3, ← h4]; exact h5
  | succ n =>
    have hb := bisectStep_inv E hO hh i st h
    simp only [bisect]
    rcases hb with ⟨hc, hinv, hl, hr, hmid, hle, _⟩ | ⟨hc, heq, hz⟩
    · by_cases hcont : (E.bisectStep i st).1 && !(E.O.lt (E.O.sub (E.bisectStep i st).2.2.1 (E.bisectStep i st).2.1) tol)
      · simp only [hcont, if_true]
        obtain ⟨a, b, ⟨l1, l2, l3, l4, l5⟩, hfin⟩ := bisect_located_mid E hO hh i tol n (E.bisectStep i st).2 (some st.2.2.1) hinv hmid
        refine ⟨a, b, ⟨le_trans hl l1, l2, l3, le_trans l4 hr, l5⟩, ?_⟩
        rcases hfin with hf | hf | hf
        · exact Or.inl hf
        · exact Or.inr (Or.inl hf)
        · refine Or.inr (Or.inr (le_trans hf ?_))
          simp only [Nat.add_sub_cancel]
          exact div_le_div_of_nonneg_right hle (by positivity)
      · simp only [hcont]
        have hcont' : E.O.lt (E.O.sub (E.bisectStep i st).2.2.1 (E.bisectStep i st).2.1) tol = true := by
          simpa [hc] using hcont
        rw [hlt, hsub, decide_eq_true_eq] at hcont'
        obtain ⟨i1, i2, i3, i4, i5⟩ := hinv
        refine ⟨(E.bisectStep i st).2.1, (E.bisectStep i st).2.2.1, ⟨hl, i1, i2, hr, ?_⟩, Or.inr (Or.inl hcont')⟩
        rw [← i3, ← i4]; exact i5
    · simp only [hc, Bool.false_and, Bool.false_eq_true, if_false, heq]
      obtain ⟨h1, h2, h3, h4, h5⟩ := h
      refine ⟨st.1, st.2.1, ⟨le_refl _, h1, h2, le_refl _, ?_⟩, Or.inl hz⟩
      rw [← h3, ← h4]; exact h5

/-- the secant start lies inside the step when the end values have strictly opposite signs and `dt` is the length of the step -/
theorem secant_inside (told t v0 v1 : ℚ) (ht : told ≤ t) (h : (0 < v0 ∧ v1 < 0) ∨ (v0 < 0 ∧ 0 < v1)) :
    told ≤ told - v0 * (t - told) / (v1 - v0) ∧ told - v0 * (t - told) / (v1 - v0) ≤ t := by
  have key : told - v0 * (t - told) / (v1 - v0) = told + (-v0 / (v1 - v0)) * (t - told) := by
    rcases h with ⟨a, b⟩ | ⟨a, b⟩
    · have : v1 - v0 ≠ 0 := by linarith
      field_simp; ring
    · have : v1 - v0 ≠ 0 := by linarith
      field_simp; ring
  have hfrac : 0 ≤ -v0 / (v1 - v0) ∧ -v0 / (v1 - v0) ≤ 1 := by
    rcases h with ⟨a, b⟩ | ⟨a, b⟩
    · have hd : v1 - v0 < 0 := by linarith
      constructor
      · exact div_nonneg_of_nonpos (by linarith) hd.le
      · rw [div_le_one_of_neg hd]; linarith
    · have hd : 0 < v1 - v0 := by linarith
      constructor
      · exact div_nonneg (by linarith) hd.le
      · rw [div_le_one hd]; linarith
  rw [key]
  have hdt : 0 ≤ t - told := by linarith
  constructor
  · nlinarith [mul_nonneg hfrac.1 hdt]
  · nlinarith [mul_nonneg (sub_nonneg.mpr hfrac.2) hdt]

end Q
end RodasEnv
end Solverz
