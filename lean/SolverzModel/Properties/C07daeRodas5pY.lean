import SolverzModel.Properties.C07daeDefs
namespace Solverz
open Generated
set_option maxRecDepth 100000

/-! ### rodas5p: differential component of order 5, algebraic component of order 4 (sharp), embedded solution of order 4 / 3 -/
theorem C07dae_rodas5p_y : daeOK rodas5p rodas5p.b (DF.yTreesUpTo 5) = true := by decide +kernel

end Solverz
