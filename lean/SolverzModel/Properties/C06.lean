/-
  Properties/C06.lean — the success flag of the algebraic solvers is truthful.
-/
import SolverzModel.Core.Ctl.Newton
import SolverzModel.Proofs.Newton
namespace Solverz

/-- **Newton–Raphson**: for every residual function (NaN included), every step function, every
tolerance and iteration limit and every start, the flag is true exactly when the residual *at the
returned point* is below the tolerance. -/
theorem C06_nr {S α} (O : Ord α) (res : S → Option α) (step : S → S) (tol : α) (maxIt : Nat) (y0 : S) :
    (nr O res step tol maxIt y0).2.succeed = ltTol O (res (nr O res step tol maxIt y0).1) tol := by
  simp only [nr]
  rw [nrLoop_df_eq O res step tol maxIt (maxIt + 2) _ rfl]

/-- the loop never runs out of fuel: `maxIt + 2` rounds suffice (the counter is checked before
each Newton step), so the model's bounded recursion is the code's `while` loop -/
theorem nrLoop_stable {S α} (O : Ord α) (res : S → Option α) (step : S → S) (tol : α) (maxIt : Nat)
    (fuel : Nat) (s : NrState S α) (hf : maxIt + 2 ≤ fuel + s.st.nstep) :
    nrLoop O res step tol maxIt (fuel + 1) s = nrLoop O res step tol maxIt fuel s := by
  induction fuel generalizing s with
  | zero =>
    simp only [nrLoop]
    split
    · split
      · rfl
      · omega
    · rfl
  | succ n ih =>
    rw [nrLoop]
    conv => rhs; rw [nrLoop]
    split
    · split
      · rfl
      · exact ih _ (by simp only; omega)
    · rfl

/-- a NaN residual is never reported as success, and neither is a residual equal to the tolerance -/
theorem C06_nan_is_failure {α} (O : Ord α) (tol : α) : ltTol O none tol = false := rfl

theorem cnrLoop_df {S α D} (O : Ord α) (res : S → Option α) (rk : S → D → Except Err (S × D)) (tol : α)
    (maxIt fuel : Nat) (y : S) (dt : D) (df : Option α) (ite : Nat) (h : df = res y)
    (r : S × D × Option α × Nat) (hr : cnrLoop O res rk tol maxIt fuel (y, dt, df, ite) = .ok r) :
    r.2.2.1 = res r.1 := by
  induction fuel generalizing y dt df ite with
  | zero => simp [cnrLoop] at hr; subst hr; exact h
  | succ n ih =>
    unfold cnrLoop at hr
    split at hr
    · split at hr
      · cases hr; exact h
      · split at hr
        · cases hr
        · exact ih _ _ _ _ rfl hr
    · cases hr; exact h

/-- **continuous Newton** (on the non-raising path) -/
theorem C06_cnr {S α D} (O : Ord α) (res : S → Option α) (rk : S → D → Except Err (S × D)) (tol : α)
    (maxIt : Nat) (y0 : S) (dt0 : D) (y : S) (st : AeStats)
    (h : cnr O res rk tol maxIt y0 dt0 = .ok (y, st)) : st.succeed = ltTol O (res y) tol := by
  unfold cnr at h
  split at h
  · cases h
  · rename_i y' dt' df ite heq
    cases h
    have := cnrLoop_df O res rk tol maxIt (maxIt + 2) y0 dt0 (res y0) 0 rfl _ heq
    simp only at this
    simp [this]

/-- **Levenberg–Marquardt** and **semi-implicit continuous Newton**: whatever the iteration did -/
theorem C06_lm {S α} (O : Ord α) (res : S → Option α) (optimise : S → S) (tol : α) (y0 : S) :
    (lm O res optimise tol y0).2 = ltTol O (res (lm O res optimise tol y0).1) tol := rfl

theorem C06_sicnm {S α} (O : Ord α) (res : S → Option α) (accepted : List S) (y0 : S) (tol : α) :
    (sicnm O res accepted y0 tol).2 = ltTol O (res (sicnm O res accepted y0 tol).1) tol := rfl

/-- non-vacuity: a scripted residual sequence 8, 2, 1/2 with tolerance 1: two steps, success -/
example : (nr (⟨fun (a b : Nat) => a < b⟩ : Ord Nat) (fun k => some ([16, 4, 1].getD k 0)) (· + 1) 2 100 0)
    = (2, { nstep := 2, nfeval := 3, ndecomp := 2, succeed := true }) := by decide

end Solverz
