/-
  Properties/C09.lean — time grid of Rodas (controller model, any script of error estimates).
-/
import SolverzModel.Core.Ctl.Rodas
import SolverzModel.Proofs.Rodas
import SolverzModel.Proofs.RodasRun
import SolverzModel.Proofs.RodasDense
import SolverzModel.Proofs.Ode15sRun
namespace Solverz
open RodasEnv

/-- **The end point is assigned.**  Whenever the last step of a two-node run is accepted (the
remaining interval is covered by the proposed step) the new time *is* `tend` — for every number
type, hence bit-for-bit in floating point — and it is the time appended to the output. -/
theorem C09_end_is_tend {α} (E : RodasEnv α) (s : RodasState α) (he : E.events = []) (hd : E.dense = false)
    (hl : E.isLast s = true) : (E.accept s).t = E.tend ∧ (E.accept s).T = E.tend :: s.T :=
  accept_last_is_tend E s he hd hl

/-- **No step exceeds the requested maximum step** (exact arithmetic, adaptive mode): the step
attempted is at most `hmax` whenever the proposal was, and every proposal made by the controller is
clamped into `[hmin, hmax]`. -/
theorem C09_step_le_hmax (E : RodasEnv ℚ) (hO : E.O = ratO) (hh : E.half = 1 / 2) (s : RodasState ℚ)
    (hf : E.opt.fixH = false) (hdt : s.dt ≤ E.hmaxV) : E.stepDt s ≤ E.hmaxV :=
  stepDt_le_hmax E hO hh s hf hdt

theorem C09_proposal_clamped (E : RodasEnv ℚ) (hO : E.O = ratO) (err fac0 : ℚ) (s : RodasState ℚ)
    (h1 : E.O.lt (E.O.abs s.dt) E.uround = false) (h2 : ¬ s.reject > 100) (hm : E.hmin ≤ E.hmaxV) :
    E.hmin ≤ (E.attempt err fac0 s).dt ∧ (E.attempt err fac0 s).dt ≤ E.hmaxV :=
  attempt_dt_clamped E hO err fac0 s h1 h2 hm

/-- the event block never alters the emitted times: times are only ever *appended* by the output
stage (rows and times stay in step) -/
theorem C09_events_do_not_emit {α} (E : RodasEnv α) (dt : α) (vo vn : List α) (ff : List Nat) (s : RodasState α) :
    (E.eventLoop dt vo vn ff s).T = s.T := (eventLoop_spec E dt vo vn ff s).1

/-- a rejected attempt and a failure exit leave the output untouched -/
theorem C09_reject_keeps_output {α} (E : RodasEnv α) (err fac0 : α) (s : RodasState α) (hf : E.opt.fixH = false)
    (h1 : E.O.lt (E.O.abs s.dt) E.uround = false) (h2 : ¬ s.reject > 100) (hr : E.O.le err E.O.one = false) :
    (E.attempt err fac0 s).T = s.T ∧ (E.attempt err fac0 s).t = s.t :=
  ⟨((attempt_accept_iff E err fac0 s hf h1 h2).2 hr).2.2.1, ((attempt_accept_iff E err fac0 s hf h1 h2).2 hr).2.2.2.1⟩

/-! ### whole runs: two requested nodes, no event functions, adaptive mode, exact arithmetic -/

/-- **Every run, whatever the error estimates.**  For every script of (error estimate, step factor) pairs — that is,
for every problem and tolerance — the times emitted by the controller, in chronological order,
start at `t0`, increase strictly and never pass `tend`; the current time is the last emitted one; no attempted
step exceeds `hmax`; and a run that ends without a reported failure and below the 10 000-step cap ends **exactly at `tend`**
(the end test of an adaptive run is `t ≥ tend` since the repair of D56; before it was `|tend − t| < uround` and the statement was
"within `uround` of `tend`"). -/
theorem C09_run_times (E : RodasEnv ℚ) (H : RunHyp E) (script : List (ℚ × ℚ)) :
    (E.run script E.init).T.reverse.head? = some E.t0 ∧
    (E.run script E.init).T.reverse.Pairwise (· < ·) ∧
    (∀ τ ∈ (E.run script E.init).T, E.t0 ≤ τ ∧ τ ≤ E.tend) ∧
    (E.run script E.init).T.head? = some (E.run script E.init).t ∧
    (E.run script E.init).dt ≤ E.hmaxV ∧
    ((E.run script E.init).done = true → (E.run script E.init).failed = false → (E.run script E.init).T.length ≠ 10001 →
      (E.run script E.init).t = E.tend) := by
  have I := H.run_inv script E.init H.init_inv
  refine ⟨?_, ?_, ?_, I.head, I.dt_max, ?_⟩
  · rw [List.head?_reverse]; exact I.last
  · rw [List.pairwise_reverse]; exact I.incr
  · intro τ hτ
    have := pairwise_gt_bounds _ _ _ I.incr I.head I.last τ hτ
    exact ⟨this.1, le_trans this.2 I.le_tend⟩
  · intro hd hf hc
    rcases I.finished hd with h | h | h
    · rw [hf] at h; cases h
    · exact absurd h hc
    · exact h

/-- the step actually attempted from any reached state is at most `hmax` -/
theorem C09_run_step_le_hmax (E : RodasEnv ℚ) (H : RunHyp E) (script : List (ℚ × ℚ)) :
    E.stepDt (E.run script E.init) ≤ E.hmaxV :=
  stepDt_le_hmax E H.hO H.hh _ H.hf (H.run_inv script E.init H.init_inv).dt_max

/-- non-vacuity: the hypotheses are met by a concrete environment (tspan [0, 1], uround 2⁻⁵², hmax = span) and a
three-attempt script (accept, reject, accept) ends with three emitted times -/
example : ∃ E : RodasEnv ℚ, RunHyp E ∧ (E.run [(1/2, 2), (3, 1/2), (1/4, 2)] E.init).T.length = 3 := by
  refine ⟨{ O := ratO, spacing := fun _ => 1 / 4503599627370496, uround := 1 / 4503599627370496, tiny := 1 / 1000000, half := 1 / 2,
            c128 := 128, tspan := [0, 1],
            opt := { fac1 := 1 / 5, fac2 := 6, facmax := 6, hinit := some (1 / 10), hmax := none, fixH := false, eventDuration := 0 },
            events := [] }, ⟨rfl, rfl, rfl, by decide, rfl, by norm_num, ?_, ?_, ?_⟩, by decide +kernel⟩
  · decide +kernel
  · decide +kernel
  · decide +kernel

/-! ### whole runs with more than two requested nodes (dense output), no event functions, adaptive, exact arithmetic -/

/-- **The returned times are exactly the requested nodes.**  For every script of error estimates and every strictly
increasing `tspan` with more than two nodes: the times emitted so far are, in order, a *prefix* of `tspan` (never an
internal step time, never a node twice, never out of order); once the integration has reached `tend` they are **all**
of `tspan`, the last node included; and a run that ends without a reported failure ends exactly at `tend`. -/
theorem C09_dense_run_times (E : RodasEnv ℚ) (H : DenseHyp E) (script : List (ℚ × ℚ)) :
    (E.run script E.init).T.reverse = E.tspan.take (E.run script E.init).inext ∧
    (E.run script E.init).T.reverse <+: E.tspan ∧
    ((E.run script E.init).t = E.tend ∨ (E.run script E.init).inext = E.tspan.length ↔ (E.run script E.init).T.reverse = E.tspan) ∧
    (E.run script E.init).dt ≤ E.hmaxV ∧
    ((E.run script E.init).done = true → (E.run script E.init).failed = false →
      (E.run script E.init).t = E.tend) := by
  have I := H.run_inv script E.init H.init_inv
  have hT : (E.run script E.init).T.reverse = E.tspan.take (E.run script E.init).inext := by rw [I.out, List.reverse_reverse]
  refine ⟨hT, by rw [hT]; exact List.take_prefix _ _, ?_, I.dt_max, ?_⟩
  · constructor
    · intro h
      have hall : (E.run script E.init).inext = E.tspan.length := by
        rcases h with h | h
        · by_contra hne
          have hlt : (E.run script E.init).inext < E.tspan.length := lt_of_le_of_ne I.idx.2 hne
          have := (I.next hlt)
          -- the next node would lie beyond tend
          have hle : E.tspan.getD (E.run script E.init).inext 0 ≤ E.tend := by
            rw [H.tend_eq]
            by_cases heq : (E.run script E.init).inext = E.tspan.length - 1
            · rw [heq]
            · exact le_of_lt (sorted_getD _ H.hsorted _ _ (by omega) (by have := H.len_gt; omega))
          rw [this.1, h] at this
          linarith [this.2]
        · exact h
      rw [hT, hall, List.take_length]
    · intro h
      right
      have hlen := congrArg List.length h
      rw [hT, List.length_take] at hlen
      have := I.idx.2
      omega
  · intro hd hf
    rcases I.finished hd with h | h
    · rw [hf] at h; cases h
    · exact h

/-- non-vacuity: tspan [0, 1/4, 1/2, 1], a script of four accepted attempts reaches `tend` and returns the four nodes -/
example : ∃ E : RodasEnv ℚ, DenseHyp E ∧
    (E.run [(1/2, 6), (1/2, 6), (1/2, 6), (1/2, 6), (1/2, 6)] E.init).T.reverse = [0, 1/4, 1/2, 1] := by
  refine ⟨{ O := ratO, spacing := fun _ => 1 / 4503599627370496, uround := 1 / 4503599627370496, tiny := 1 / 1000000, half := 1 / 2,
            c128 := 128, tspan := [0, 1/4, 1/2, 1],
            opt := { fac1 := 1 / 5, fac2 := 6, facmax := 6, hinit := some (1 / 10), hmax := none, fixH := false, eventDuration := 0 },
            events := [] }, ⟨rfl, rfl, rfl, by decide, rfl, by norm_num, ?_, ?_, ?_⟩, by decide +kernel⟩
  · decide +kernel
  · decide +kernel
  · decide +kernel

/-! ### ode15s: whole runs of its step-size / order / output controller, exact arithmetic -/

/-- **ode15s, two requested nodes.**  For every sequence of step records — whatever the Newton iteration did, however often
a step was retried, whatever orders were selected — the returned times start at `t0`, increase strictly, never pass `tend`,
and the run is finished exactly when the current time *is* `tend` (the end point is assigned, not computed). -/
theorem C09_ode15s_run_times (E : OdeEnv ℚ) (H : OdeHyp E) (hd : E.dense = false) (absh0 : ℚ) (h0 : 0 < absh0) (hm : absh0 ≤ E.hmax)
    (recs : List (StepRec ℚ)) (hrecs : ∀ r ∈ recs, ∀ e ∈ r.inner, Inner.ok e) :
    (E.run recs (E.init absh0)).T.reverse.head? = some E.t0 ∧
    (E.run recs (E.init absh0)).T.reverse.Pairwise (· < ·) ∧
    (∀ τ ∈ (E.run recs (E.init absh0)).T, E.t0 ≤ τ ∧ τ ≤ E.tend) ∧
    (E.run recs (E.init absh0)).T.head? = some (E.run recs (E.init absh0)).t ∧
    ((E.run recs (E.init absh0)).done = true ↔ (E.run recs (E.init absh0)).t = E.tend) := by
  obtain ⟨I0, O0⟩ := H.init_inv absh0 h0 hm
  obtain ⟨I, O⟩ := H.run_two hd recs hrecs _ I0 O0
  refine ⟨by rw [List.head?_reverse]; exact O.last, by rw [List.pairwise_reverse]; exact O.incr, ?_, O.head, ?_⟩
  · intro τ hτ
    have := pairwise_gt_bounds _ _ _ O.incr O.head O.last τ hτ
    exact ⟨this.1, le_trans this.2 I.le_tend⟩
  · constructor
    · exact I.finished
    · intro h
      by_contra hn
      have := I.running (by simpa using hn)
      linarith

/-- **ode15s: no step exceeds the maximum step**, and every step advances time -/
theorem C09_ode15s_step_le_hmax (E : OdeEnv ℚ) (H : OdeHyp E) (rec : StepRec ℚ) (hrec : ∀ e ∈ rec.inner, Inner.ok e)
    (s : OdeState ℚ) (I : OdeInv E s) (hr : s.done = false) :
    s.t < (E.step rec s).t ∧ (E.step rec s).t - s.t ≤ E.hmax := (H.step_inv rec hrec s I hr).2

/-- **ode15s, more than two requested nodes.**  The returned times are always a prefix of `tspan`, and all of `tspan`
once the run is finished. -/
theorem C09_ode15s_dense_run_times (E : OdeEnv ℚ) (H : OdeHyp E) (D : OdeHyp.OdeDenseHyp E) (absh0 : ℚ) (h0 : 0 < absh0) (hm : absh0 ≤ E.hmax)
    (recs : List (StepRec ℚ)) (hrecs : ∀ r ∈ recs, ∀ e ∈ r.inner, Inner.ok e) :
    (E.run recs (E.init absh0)).T.reverse <+: E.tspan ∧
    ((E.run recs (E.init absh0)).done = true → (E.run recs (E.init absh0)).T.reverse = E.tspan) := by
  obtain ⟨I0, _⟩ := H.init_inv absh0 h0 hm
  obtain ⟨I, O⟩ := H.run_dense D recs hrecs _ I0 (H.init_dense D absh0)
  have hT : (E.run recs (E.init absh0)).T.reverse = E.tspan.take (E.run recs (E.init absh0)).inext := by rw [O.out, List.reverse_reverse]
  refine ⟨by rw [hT]; exact List.take_prefix _ _, ?_⟩
  intro hd
  rw [hT, O.all (I.finished hd), List.take_length]

/-- non-vacuity: the hypotheses hold for a concrete environment, and a run with a retried step (error test failed once,
order kept) reaches `tend = 1` -/
example : ∃ E : OdeEnv ℚ, OdeHyp E ∧ E.dense = false ∧
    (E.run [⟨[], ⟨1, none, none⟩⟩, ⟨[.errFail (1/2) none], ⟨1, none, none⟩⟩, ⟨[], ⟨1, none, none⟩⟩, ⟨[], ⟨1, none, none⟩⟩] (E.init (2/5))).T.reverse
      = [0, 2/5, 3/5, 4/5, 1] := by
  refine ⟨{ O := ratO, spacing := fun _ => 1 / 4503599627370496, tspan := [0, 1], hmax := 1, c11 := 11/10, c03 := 3/10, c05 := 1/2,
            c10 := 10, c01 := 1/10, c16 := 16, maxk := 5 }, ⟨rfl, rfl, rfl, rfl, ?_, ?_, ?_⟩, by decide, by decide +kernel⟩
  · intro t; simp [OdeEnv.hminAt, ratO, ratFld]
  · intro t; simp [OdeEnv.hminAt, ratO, ratFld]; norm_num
  · decide +kernel

/-- fixed-step mode (`fix_h=True`, the mode the order ladders of C07 run in), exact arithmetic: a step never passes tend; it is the
requested step h except for the last one, which is the remainder and ends at tend itself (before the repair every step was h and the
run ended only if the grid hit tend to within uround) -/
theorem C09_fixed_step_ends_at_tend (E : RodasEnv ℚ) (hO : E.O = ratO) (hf : E.opt.fixH = true) (h : ℚ)
    (hh : E.opt.hinit = some h) (hpos : 0 < h) (hs : 1 ≤ E.fixSlack) (s : RodasState ℚ) :
    s.t + E.stepDt s ≤ E.tend ∧ (E.isLast s = true → E.stepDt s = E.tend - s.t ∧ (E.advance s).t = E.tend) ∧
      (E.isLast s = false → E.stepDt s = h ∧ s.t + h < E.tend) := by
  have hsub : ∀ a b : ℚ, E.O.sub a b = a - b := by intro a b; rw [hO]; rfl
  have hadd : ∀ a b : ℚ, E.O.add a b = a + b := by intro a b; rw [hO]; rfl
  have hmul : ∀ a b : ℚ, E.O.mul a b = a * b := by intro a b; rw [hO]; rfl
  have hle : ∀ a b : ℚ, E.O.le a b = decide (a ≤ b) := by intro a b; rw [hO]; rfl
  simp only [RodasEnv.stepDt, RodasEnv.isLast, RodasEnv.fixLast, RodasEnv.advance, hf, hh, if_true, Option.getD_some, hsub, hadd, hmul, hle]
  by_cases hl : E.tend ≤ s.t + h * E.fixSlack
  · simp [hl]
  · have h1 : s.t + h * E.fixSlack < E.tend := not_le.mp hl
    have h2 : h ≤ h * E.fixSlack := by nlinarith
    simp [hl]
    constructor <;> linarith

end Solverz
