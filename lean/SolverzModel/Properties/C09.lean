/-
  Properties/C09.lean — time grid of Rodas (controller model, any script of error estimates).
-/
import SolverzModel.Core.Ctl.Rodas
import SolverzModel.Proofs.Rodas
namespace Solverz
open RodasEnv

/-- **The end point is assigned.**  Whenever the last step of a two-node run is accepted (the
remaining interval is covered by the proposed step) the new time *is* `tend` — for every number
type, hence bit-for-bit in floating point — and it is the time appended to the output. -/
theorem C09_end_is_tend {α} (E : RodasEnv α) (s : RodasState α) (he : E.events = []) (hd : E.dense = false)
    (hl : E.isLast s = true) : (E.accept s).t = E.tend ∧ (E.accept s).T = E.tend :: s.T :=
  accept_last_is_tend E s he hd hl

/-- **No step exceeds the requested maximum step** (exact arithmetic, adaptive mode): the step
attempted is at most `hmax` whenever the proposal was, and every proposal made by the controller is
clamped into `[hmin, hmax]`. -/
theorem C09_step_le_hmax (E : RodasEnv ℚ) (hO : E.O = ratO) (hh : E.half = 1 / 2) (s : RodasState ℚ)
    (hf : E.opt.fixH = false) (hdt : s.dt ≤ E.hmaxV) : E.stepDt s ≤ E.hmaxV :=
  stepDt_le_hmax E hO hh s hf hdt

theorem C09_proposal_clamped (E : RodasEnv ℚ) (hO : E.O = ratO) (err fac0 : ℚ) (s : RodasState ℚ)
    (h1 : E.O.lt (E.O.abs s.dt) E.uround = false) (h2 : ¬ s.reject > 100) (hm : E.hmin ≤ E.hmaxV) :
    E.hmin ≤ (E.attempt err fac0 s).dt ∧ (E.attempt err fac0 s).dt ≤ E.hmaxV :=
  attempt_dt_clamped E hO err fac0 s h1 h2 hm

/-- the event block never alters the emitted times: times are only ever *appended* by the output
stage (rows and times stay in step) -/
theorem C09_events_do_not_emit {α} (E : RodasEnv α) (dt : α) (vo vn : List α) (ff : List Nat) (s : RodasState α) :
    (E.eventLoop dt vo vn ff s).T = s.T := (eventLoop_spec E dt vo vn ff s).1

/-- a rejected attempt and a failure exit leave the output untouched -/
theorem C09_reject_keeps_output {α} (E : RodasEnv α) (err fac0 : α) (s : RodasState α) (hf : E.opt.fixH = false)
    (h1 : E.O.lt (E.O.abs s.dt) E.uround = false) (h2 : ¬ s.reject > 100) (hr : E.O.le err E.O.one = false) :
    (E.attempt err fac0 s).T = s.T ∧ (E.attempt err fac0 s).t = s.t :=
  ⟨((attempt_accept_iff E err fac0 s hf h1 h2).2 hr).2.2.1, ((attempt_accept_iff E err fac0 s hf h1 h2).2 hr).2.2.2.1⟩

end Solverz
