import SolverzModel.Core.Lang
namespace Solverz
theorem C02_placeholder : True := trivial
end Solverz
