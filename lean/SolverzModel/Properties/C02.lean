/-
  Properties/C02.lean — the Jacobian of the reference semantics is the true derivative, and the
  derivative rules it uses are the ones the running code defines (Generated/FnRules.lean).
-/
import SolverzModel.Core.Lang
import SolverzModel.Proofs.Diff
import SolverzModel.Generated.FnRules
import Mathlib.Analysis.SpecialFunctions.Pow.Real
namespace Solverz
open SEx

/-- **`diff` is the derivative of `eval`** (real analysis, Mathlib): for every scalar expression of the
language, every state element `c` and every point away from the kinks of the piecewise functions,
`x ↦ eval e [y c := x]` is differentiable at `y c` with derivative `eval (diff c e)`. -/
theorem C02_diff_correct (e : SEx ℝ) (c : ℕ) (ρ : Env ℝ) (h : KinkFree ρ e) :
    HasDerivAt (fun x => eval realF (ρ.setY c x) e) (eval realF ρ (SEx.diff realF c e)) (ρ.y c) :=
  diff_correct e c ρ h

/-- **Every Jacobian entry is the partial derivative of its residual element**: entry `(r, c)` of the
reference Jacobian of a model is the derivative of residual element `r` with respect to state element `c`. -/
theorem C02_jacobian_entry (m : LModel ℝ) (ρ : Env ℝ) (res : List (SEx ℝ)) (hres : m.residual = .ok res) :
    m.evalJ realF ρ = .ok (res.map fun e => (List.range m.L.vars.sum).map fun c => eval realF ρ (SEx.diff realF c e)) ∧
    ∀ r (hr : r < res.length) c, KinkFree ρ res[r] →
      HasDerivAt (fun x => eval realF (ρ.setY c x) res[r]) (eval realF ρ (SEx.diff realF c res[r])) (ρ.y c) := by
  refine ⟨by simp [LModel.evalJ, hres, bind, Except.bind], fun r hr c hk => diff_correct _ c ρ hk⟩

/-- shape: one row per residual element, one column per state element -/
theorem C02_shape (m : LModel ℝ) (ρ : Env ℝ) (res : List (SEx ℝ)) (hres : m.residual = .ok res) (J : List (List ℝ))
    (hJ : m.evalJ realF ρ = .ok J) : J.length = res.length ∧ ∀ row ∈ J, row.length = m.L.vars.sum := by
  simp only [LModel.evalJ, hres, bind, Except.bind, Except.ok.injEq] at hJ
  subst hJ
  constructor
  · simp
  · intro row hrow
    simp only [List.mem_map] at hrow
    obtain ⟨e, _, rfl⟩ := hrow
    simp

/-! ### powers with a real exponent (`x ** 0.5`, `x ** p`, `a ** x`) -/

/-- the derived form `powr a b = exp(b · ln a)` **is** the real power for a positive base -/
theorem C02_powr_meaning (ρ : Env ℝ) (a b : SEx ℝ) (ha : 0 < eval realF ρ a) :
    eval realF ρ (SEx.powr a b) = (eval realF ρ a) ^ (eval realF ρ b) := by
  rw [Real.rpow_def_of_pos ha]
  simp [SEx.powr, eval, evalFn1, mul_comm]

/-- its derivative in the familiar form: a^b · (b' · ln a + b · a' / a), for a positive base, wherever the two
sub-expressions are away from their kinks (base and exponent may both depend on the variable) -/
theorem C02_powr_derivative (ρ : Env ℝ) (c : ℕ) (a b : SEx ℝ) (ha : 0 < eval realF ρ a)
    (hka : KinkFree ρ a) (hkb : KinkFree ρ b) :
    HasDerivAt (fun x => eval realF (ρ.setY c x) (SEx.powr a b))
      ((eval realF ρ a) ^ (eval realF ρ b) *
        (eval realF ρ (SEx.diff realF c b) * Real.log (eval realF ρ a) +
          eval realF ρ b * (eval realF ρ (SEx.diff realF c a) / eval realF ρ a))) (ρ.y c) := by
  have hk : KinkFree ρ (SEx.powr a b) := ⟨hkb, hka, ne_of_gt ha⟩
  have h := diff_correct (SEx.powr a b) c ρ hk
  have e : eval realF ρ (SEx.diff realF c (SEx.powr a b)) =
      (eval realF ρ a) ^ (eval realF ρ b) *
        (eval realF ρ (SEx.diff realF c b) * Real.log (eval realF ρ a) +
          eval realF ρ b * (eval realF ρ (SEx.diff realF c a) / eval realF ρ a)) := by
    rw [Real.rpow_def_of_pos ha]
    simp [SEx.powr, SEx.diff, eval, evalFn1, mul_comm]
  rw [e] at h; exact h

/-- non-vacuous: y₀ ** y₁ at (2, 3): value 8, ∂/∂y₀ = 3·2² = 12 -/
example : let ρ : Env ℝ := ⟨fun i => if i = 0 then 2 else 3, fun _ => 0, fun _ => 0⟩
    0 < eval realF ρ (.y 0) ∧ eval realF ρ (SEx.powr (.y 0) (.y 1)) = 8 ∧
      (2:ℝ) ^ (3:ℝ) * (eval realF ρ (SEx.diff realF 0 (.y 1)) * Real.log 2 + 3 * (eval realF ρ (SEx.diff realF 0 (.y 0)) / 2)) = 12 := by
  intro ρ
  have h23 : (2:ℝ) ^ (3:ℝ) = 8 := by
    rw [show (3:ℝ) = ((3:ℕ):ℝ) by norm_num, Real.rpow_natCast]; norm_num
  refine ⟨by simp [ρ, eval], ?_, ?_⟩
  · rw [C02_powr_meaning ρ _ _ (by simp [ρ, eval])]; simpa [ρ, eval] using h23
  · rw [h23]; simp [ρ, SEx.diff, eval]; norm_num

/-! ### the derivative rules are the code's rules (T4) -/

theorem C02_rule_Abs (c : ℕ) (a : SEx ℝ) :
    SEx.diff realF c (.fn1 .abs a) = .mul (Generated.fdiff_Abs_1 realF a) (SEx.diff realF c a) := rfl

theorem C02_rule_Sign_heaviside (ρ : Env ℝ) (a : SEx ℝ) :
    eval realF ρ (Generated.fdiff_Sign_1 realF a) = 0 ∧ eval realF ρ (Generated.fdiff_heaviside_1 realF a) = 0 := by
  simp [Generated.fdiff_Sign_1, Generated.fdiff_heaviside_1, eval]

theorem C02_rule_sin (c : ℕ) (a : SEx ℝ) :
    SEx.diff realF c (.fn1 .sin a) = .mul (Generated.fdiff_sin_1 realF a) (SEx.diff realF c a) := rfl

theorem C02_rule_cos (ρ : Env ℝ) (c : ℕ) (a : SEx ℝ) :
    eval realF ρ (SEx.diff realF c (.fn1 .cos a)) = eval realF ρ (.mul (Generated.fdiff_cos_1 realF a) (SEx.diff realF c a)) := by
  simp [Generated.fdiff_cos_1, SEx.diff, eval, evalFn1]

theorem C02_rule_exp (c : ℕ) (a : SEx ℝ) :
    SEx.diff realF c (.fn1 .exp a) = .mul (Generated.fdiff_exp_1 realF a) (SEx.diff realF c a) := rfl

theorem C02_rule_ln (ρ : Env ℝ) (c : ℕ) (a : SEx ℝ) :
    eval realF ρ (SEx.diff realF c (.fn1 .ln a)) = eval realF ρ (.mul (Generated.fdiff_ln_1 realF a) (SEx.diff realF c a)) := by
  rw [show eval realF ρ (SEx.mul (Generated.fdiff_ln_1 realF a) (SEx.diff realF c a))
        = realF.mul (eval realF ρ (.powi a (-1))) (eval realF ρ (SEx.diff realF c a)) from rfl, eval_powi]
  simp only [SEx.diff, eval, rf_div, rf_mul]
  rw [zpow_neg_one]; ring

/-- `Saturation`: the three partial derivatives the code defines are the ones `diff` uses -/
theorem C02_rule_Saturation (c : ℕ) (v lo hi : SEx ℝ) :
    SEx.diff realF c (.sat v lo hi) =
      .add (.add (.mul (Generated.fdiff_Saturation_1 realF v lo hi) (SEx.diff realF c v))
                 (.mul (Generated.fdiff_Saturation_2 realF v lo hi) (SEx.diff realF c lo)))
           (.mul (Generated.fdiff_Saturation_3 realF v lo hi) (SEx.diff realF c hi)) := rfl

/-- comparison and logic helpers differentiate to zero in the code as in the reference -/
theorem C02_rule_logic : (Generated.LessThan_deriv_is_zero && Generated.GreaterThan_deriv_is_zero && Generated.And_deriv_is_zero &&
    Generated.Or_deriv_is_zero && Generated.In_deriv_is_zero && Generated.Not_deriv_is_zero) = true := by decide

/-- non-vacuity: `x0 * sin(x1) + |x0|` at a point with `x0 = -2`: the hypothesis holds and the derivative
w.r.t. `x0` is `sin(x1) - 1` -/
example : KinkFree ⟨fun i => if i = 0 then -2 else 1, fun _ => 0, fun _ => 0⟩
    (.add (.mul (.y 0) (.fn1 .sin (.y 1))) (.fn1 .abs (.y 0))) := by
  simp [KinkFree, eval]

end Solverz
