import SolverzModel.Core.Lang
namespace Solverz
theorem C01_placeholder : True := trivial
end Solverz
