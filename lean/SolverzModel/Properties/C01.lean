/-
  Properties/C01.lean — facts about the reference semantics that C01's statement names: placement of the
  equation elements, broadcasting of a scalar Ode right-hand side, dependence on the parameters only through
  the values passed at the call, selection semantics, time-series interpolation and hold.
  (That the generated code computes these values is tied by the differential runs of the check.)
-/
import SolverzModel.Core.Lang
import SolverzModel.Core.TimeSeries
import SolverzModel.Proofs.Vars
import SolverzModel.Proofs.Mass
import SolverzModel.Proofs.Sel
import Mathlib.Tactic.Linarith
import Mathlib.Tactic.FieldSimp
import Mathlib.Tactic.Ring
namespace Solverz
open SEx

open LModel (eqBlock)

/-- **Placement.**  The residual is the concatenation of the equations' blocks in declaration order: the
block of the first equation occupies offsets `[0, size₀)`, the rest follows. -/
theorem C01_residual_cons {α} (L : Layout) (e : Ex α) (target : Nat) (es : List (Ex α × Nat)) :
    (LModel.mk L ((e, target) :: es)).residual = (do
      let b ← eqBlock L e target
      let r ← (LModel.mk L es).residual
      pure (b ++ r)) := by
  simp only [LModel.residual, List.mapM_cons, bind_assoc, pure_bind]
  cases h1 : eqBlock L e target with
  | error err => simp [bind, Except.bind]
  | ok b =>
    simp only [bind, Except.bind]
    cases h3 : List.mapM (fun x : Ex α × Nat => eqBlock L x.1 x.2) es with
    | error err => simp [pure, Except.pure]
    | ok parts => simp [pure, Except.pure]

/-- an equation with a vector `diff_var` and a scalar right-hand side has one element per element of the
`diff_var`, all equal to the scalar (`max(rhs, lhs)` rule) -/
theorem C01_scalar_rhs_broadcast {α} (L : Layout) (e : Ex α) (target : Nat) (h1 : e.size L = .ok 1) (x : SEx α)
    (hx : e.lower L 0 = .ok x) : eqBlock L e target = .ok (List.replicate (max 1 target) x) := by
  simp only [eqBlock, h1, bind, Except.bind, if_true, ne_eq, not_true_eq_false, false_and, if_false]
  have key : ∀ n : Nat, List.mapM (fun _ : Nat => Ex.lower L 0 e) (List.range n) = Except.ok (List.replicate n x) := by
    intro n
    induction n with
    | zero => rfl
    | succ n ih =>
      rw [List.range_succ, List.mapM_append, ih]
      simp only [bind, Except.bind, List.mapM_cons, List.mapM_nil, hx, pure, Except.pure]
      rw [List.replicate_succ']
  exact key _

/-- **Parameters are read at the call.**  The residual value depends on the parameter vector only through
the values in the environment of *this* call: environments that agree give the same value, whatever was
evaluated before (the semantics has no other state). -/
theorem C01_params_at_call {α} (F : TFld α) (m : LModel α) (ρ ρ' : Env α)
    (hy : ρ.y = ρ'.y) (hp : ρ.p = ρ'.p) (h0 : ρ.y0 = ρ'.y0) : m.evalF F ρ = m.evalF F ρ' := by
  cases ρ; cases ρ'; simp_all

/-! ### selections -/

example : Sel.indices 4 10 (.idx (-1)) = .ok [13] := by decide
example : Sel.indices 4 10 (.slice none (some (-1))) = .ok [10, 11, 12] := by decide
example : Sel.indices 4 10 (.slice (some (-2)) none) = .ok [12, 13] := by decide
example : Sel.indices 4 10 (.idx 4) = .error .index := by decide

/-- a whole variable selects its range, an integer index one element of it, a slice a sub-range — all
inside `[base, base + n)` -/
theorem C01_selection_within (n base : Nat) (s : Sel) (ix : List Nat) (h : s.indices n base = .ok ix) :
    ∀ k ∈ ix, base ≤ k ∧ k < base + n := by
  intro k hk
  cases s with
  | whole =>
    simp only [Sel.indices, Except.ok.injEq] at h; subst h
    simp only [List.mem_map, List.mem_range] at hk
    obtain ⟨a, ha, rfl⟩ := hk; omega
  | idx i =>
    simp only [Sel.indices, bind, Except.bind] at h
    cases hn : Heap.normIdx n i with
    | error e => simp [hn] at h
    | ok j =>
      simp only [hn, Except.ok.injEq] at h; subst h
      simp only [List.mem_singleton] at hk; subst hk
      unfold Heap.normIdx at hn
      split at hn
      · split at hn
        · cases hn; omega
        · cases hn
      · split at hn
        · cases hn; omega
        · cases hn
  | slice a b =>
    simp only [Sel.indices, Except.ok.injEq] at h; subst h
    simp only [List.mem_map, List.mem_range] at hk
    obtain ⟨j, hj, rfl⟩ := hk
    have := sliceBounds_le' n (a.getD 0) (b.getD n)
    omega
  | strided a b step =>
    simp only [Sel.indices] at h
    split at h
    · cases h
    · rename_i hs
      simp only [Except.ok.injEq] at h; subst h
      simp only [List.mem_map, List.mem_range] at hk
      obtain ⟨j, hj, rfl⟩ := hk
      have := strided_within n a b step hs j hj
      omega
  | pick ks =>
    simp only [Sel.indices, bind, Except.bind] at h
    cases hm : List.mapM (Heap.normIdx n) ks with
    | error e => simp [hm] at h
    | ok js =>
      simp only [hm, Except.ok.injEq] at h; subst h
      simp only [List.mem_map] at hk
      obtain ⟨j, hj, rfl⟩ := hk
      have := mapM_normIdx_lt hm j hj
      omega

/-! ### time series -/

/-- at a node the value is the node's value; between two nodes it is the linear interpolant; from the
last node on it is the last value; before the first node there is no value -/
theorem C01_timeseries_two (t0 v0 t1 v1 : ℚ) (rest : List (ℚ × ℚ)) (t : ℚ) (h0 : t0 ≤ t) (h1 : t < t1) :
    tsValue ratO ((t0, v0) :: (t1, v1) :: rest) t = some (v0 + (t - t0) / (t1 - t0) * (v1 - v0)) := by
  have a : ¬ t < t0 := not_lt.mpr h0
  simp only [tsValue, ratO, ratFld, a, h1, decide_false, decide_true, Bool.false_eq_true, if_false, if_true, Option.some.injEq]
  field_simp

theorem C01_timeseries_hold (ts : List (ℚ × ℚ)) (tl vl : ℚ) (t : ℚ) (hsorted : ∀ p ∈ ts, p.1 ≤ tl) (h : tl ≤ t)
    (hfirst : ∀ p, ts.head? = some p → p.1 ≤ t) :
    tsValue ratO (ts ++ [(tl, vl)]) t = some vl := by
  induction ts with
  | nil => simp [tsValue, ratO, h]
  | cons p ps ih =>
    obtain ⟨tp, vp⟩ := p
    have hp : tp ≤ tl := hsorted (tp, vp) List.mem_cons_self
    have htp : tp ≤ t := le_trans hp h
    cases ps with
    | nil =>
      have a : ¬ t < tp := not_lt.mpr htp
      have b : ¬ t < tl := not_lt.mpr h
      simp [tsValue, ratO, a, b, h]
    | cons q qs =>
      obtain ⟨tq, vq⟩ := q
      have hq : tq ≤ tl := hsorted (tq, vq) (by simp)
      have a : ¬ t < tp := not_lt.mpr htp
      have b : ¬ t < tq := not_lt.mpr (le_trans hq h)
      have := ih (fun r hr => hsorted r (List.mem_cons_of_mem _ hr)) (fun r hr => by simp at hr; subst hr; exact le_trans hq h)
      simp only [List.cons_append, tsValue, ratO, a, b, decide_false, Bool.false_eq_true, if_false] at this ⊢
      exact this

theorem C01_timeseries_before (t0 v0 : ℚ) (rest : List (ℚ × ℚ)) (t : ℚ) (h : t < t0) :
    tsValue ratO ((t0, v0) :: rest) t = none := by
  cases rest with
  | nil => simp [tsValue, ratO, not_le.mpr h]
  | cons q qs => simp [tsValue, ratO, h]

end Solverz
