/-
  Properties/C18.lean — the mathematical meaning of the extended grammar (strided slices, index lists /
  index parameters, matrix parameters under `Mat_Mul`), and which programs have *no* meaning (the reference is
  an error: out-of-range indices, a zero step, operands of different sizes, a matrix whose shape does not fit).
  C18's outcome rule is decided against this reference: the real code may raise, or must return these values;
  where the reference is an error the real code must raise.
-/
import SolverzModel.Core.Lang
import SolverzModel.Proofs.Sel
import SolverzModel.Proofs.Diff
namespace Solverz
open SEx

/-! ### selections of the extended grammar -/

/-- a strided slice with a non-zero step selects the arithmetic progression `start, start + step, …`
(`count` terms, both from Python's `slice.indices`), every term inside the object -/
theorem C18_strided_indices (n base : Nat) (a b : Option Int) (step : Int) (hs : step ≠ 0) :
    ∃ ix, Sel.indices n base (.strided a b step) = .ok ix ∧ ix.length = (stridedBounds n a b step).2 ∧
      ∀ j (hj : j < ix.length), ((ix[j] : Nat) : Int) = base + ((stridedBounds n a b step).1 + j * step) ∧
        base ≤ ix[j] ∧ ix[j] < base + n := by
  refine ⟨_, by simp only [Sel.indices, hs, if_false]; rfl, by simp, ?_⟩
  intro j hj
  simp only [List.length_map, List.length_range] at hj
  have hw := strided_within n a b step hs j hj
  simp only [List.getElem_map, List.getElem_range]
  omega

/-- a zero step has no meaning -/
theorem C18_zero_step_is_error (n base : Nat) (a b : Option Int) :
    Sel.indices n base (.strided a b 0) = .error .index := by simp [Sel.indices]

/-- step 1 is the ordinary slice: same elements in the same order -/
theorem C18_step_one_is_slice (n base : Nat) (a b : Option Int) (ix : List Nat)
    (h : Sel.indices n base (.strided a b 1) = .ok ix) : ∀ k ∈ ix, base ≤ k ∧ k < base + n := by
  intro k hk
  simp only [Sel.indices] at h
  simp only [show (1 : Int) ≠ 0 by decide, if_false, Except.ok.injEq] at h; subst h
  simp only [List.mem_map, List.mem_range] at hk
  obtain ⟨j, hj, rfl⟩ := hk
  have := strided_within n a b 1 (by decide) j hj
  omega

/-- an index list selects one element per entry, in the order written, each normalised like an integer
index; one entry out of range makes the whole selection meaningless -/
theorem C18_pick_indices (n base : Nat) (ks : List Int) (ix : List Nat) (h : Sel.indices n base (.pick ks) = .ok ix) :
    ix.length = ks.length ∧ ∀ k ∈ ix, base ≤ k ∧ k < base + n := by
  simp only [Sel.indices, bind, Except.bind] at h
  cases hm : List.mapM (Heap.normIdx n) ks with
  | error e => simp [hm] at h
  | ok js =>
    simp only [hm, Except.ok.injEq] at h; subst h
    refine ⟨?_, ?_⟩
    · simpa using mapM_normIdx_length hm
    · intro k hk
      simp only [List.mem_map] at hk
      obtain ⟨j, hj, rfl⟩ := hk
      have := mapM_normIdx_lt hm j hj
      omega

/-- an integer index outside `[-n, n)` has no meaning -/
theorem C18_index_out_of_range (n base : Nat) (i : Int) (h : (n : Int) ≤ i ∨ i < -(n : Int)) :
    Sel.indices n base (.idx i) = .error .index := by
  have : Heap.normIdx n i = .error .index := by
    unfold Heap.normIdx
    split
    · split
      · omega
      · rfl
    · split
      · omega
      · rfl
  simp [Sel.indices, this, bind, Except.bind]

/-! ### operands of different sizes -/

/-- two 1-D operands combine exactly when their sizes are equal or one of them is 1 -/
theorem C18_size_mismatch (a b : Nat) : Ex.bsize a b = .error .shape ↔ a ≠ b ∧ a ≠ 1 ∧ b ≠ 1 := by
  unfold Ex.bsize
  constructor
  · intro h
    split at h
    · cases h
    · split at h
      · cases h
      · split at h
        · cases h
        · exact ⟨by assumption, by assumption, by assumption⟩
  · rintro ⟨h1, h2, h3⟩
    simp [h1, h2, h3]

/-- … and an equation with mismatched operands has no residual: F, J and the Hessian-vector product of the
whole model are errors (nothing is returned for the other equations either) -/
theorem C18_mismatch_no_values {α} (F : TFld α) (m : LModel α) (ρ : Env α) (err : Err)
    (h : m.residual = .error err) :
    m.evalF F ρ = .error err ∧ m.evalJ F ρ = .error err := by
  simp [LModel.evalF, LModel.evalJ, h, bind, Except.bind]

example : (match (⟨⟨[4, 2], []⟩, [(.mul (.var 0 .whole) (.var 1 .whole), 0)]⟩ : LModel Int).residual with
    | .error .shape => true | _ => false) = true := by rfl

/-! ### matrix parameters -/

/-- value of a row of `A @ a` over the reals: `Σ_j A[i, j] · g(a_j)` with the terms in column order -/
noncomputable def dotVal (ρ : Env ℝ) (g : SEx ℝ → ℝ) (k : Nat) (x : SEx ℝ) : List (SEx ℝ) → ℝ
  | [] => ρ.p k * g x
  | z :: rest => ρ.p k * g x + dotVal ρ g (k + 1) z rest

/-- element `i` of `Mat_Mul(A, a)` is the inner product of row `i` of `A` (row-major in the parameter
vector) with the elements of `a` -/
theorem C18_matvec_value (ρ : Env ℝ) (k : Nat) (x : SEx ℝ) (rest : List (SEx ℝ)) :
    eval realF ρ (Ex.dotRow k x rest) = dotVal ρ (eval realF ρ) k x rest := by
  induction rest generalizing k x with
  | nil => simp [Ex.dotRow, dotVal, eval]
  | cons z rest ih => simp [Ex.dotRow, dotVal, eval, ih]

/-- **Jacobian of `A @ a`.**  The derivative of row `i` with respect to the state element `c` is
`Σ_j A[i, j] · ∂a_j/∂y_c` — the matrix itself when `a` is the variable, never a broadcast scalar -/
theorem C18_matvec_jacobian (ρ : Env ℝ) (c k : Nat) (x : SEx ℝ) (rest : List (SEx ℝ)) :
    eval realF ρ (SEx.diff realF c (Ex.dotRow k x rest))
      = dotVal ρ (fun e => eval realF ρ (SEx.diff realF c e)) k x rest := by
  induction rest generalizing k x with
  | nil => simp [Ex.dotRow, dotVal, eval, SEx.diff]
  | cons z rest ih => simp [Ex.dotRow, dotVal, eval, SEx.diff, ih]

/-- … and it is the derivative of the value (instance of the differentiation theorem of C02) -/
theorem C18_matvec_hasDeriv (ρ : Env ℝ) (c k : Nat) (x : SEx ℝ) (rest : List (SEx ℝ))
    (hk : KinkFree ρ (Ex.dotRow k x rest)) :
    HasDerivAt (fun v => eval realF (ρ.setY c v) (Ex.dotRow k x rest))
      (dotVal ρ (fun e => eval realF ρ (SEx.diff realF c e)) k x rest) (ρ.y c) := by
  rw [← C18_matvec_jacobian]
  exact diff_correct _ c ρ hk

/-- a matrix whose number of columns differs from the size of the operand (or whose element count is not a
multiple of the column count) has no product -/
theorem C18_matvec_shape {α} (L : Layout) (q cols n k : Nat) (a : Ex α) (hq : L.pars[q]? = some n)
    (ha : a.size L = .ok k) (h : cols = 0 ∨ n % cols ≠ 0 ∨ k ≠ cols) :
    (Ex.matvec q cols a).size L = .error .shape := by
  simp [Ex.size, hq, ha, bind, Except.bind, h]

/-- `[[1,2],[3,4]] @ (y0, y1)`, row 1 = `3·y0 + 4·y1`; its derivative w.r.t. `y1` is `4` -/
example : eval realF ⟨fun i => if i = 0 then 5 else 7, fun j => (j : ℝ) + 1, fun _ => 0⟩
    (SEx.diff realF 1 (Ex.dotRow 2 (.y 0) [.y 1])) = 4 := by
  simp [Ex.dotRow, SEx.diff, eval]
  norm_num

end Solverz
