/-
  Properties/C08.lean — invariants of the adaptive step-size controllers of Rodas and ode15s (PARTIAL for the
  property: the global-error bound itself is numerical analysis and is only sampled by the check).
-/
import SolverzModel.Core.Ctl.Rodas
import SolverzModel.Proofs.Rodas
import SolverzModel.Proofs.Ode15sRun
namespace Solverz
open RodasEnv

/-- a step is accepted exactly when the scaled error estimate is at most 1; acceptance counts a
step and clears the rejection counter, rejection counts a rejection, keeps time and output, and sets
`facmax = 1` (no growth directly after a rejection) -/
theorem C08_accept_iff_partial {α} (E : RodasEnv α) (err fac0 : α) (s : RodasState α) (hf : E.opt.fixH = false)
    (h1 : E.O.lt (E.O.abs s.dt) E.uround = false) (h2 : ¬ s.reject > 100) :
    (E.O.le err E.O.one = true → (E.attempt err fac0 s).reject = 0 ∧ (E.attempt err fac0 s).nstep = s.nstep + 1 ∧
        (E.attempt err fac0 s).nreject = s.nreject) ∧
    (E.O.le err E.O.one = false → (E.attempt err fac0 s).reject = s.reject + 1 ∧
        (E.attempt err fac0 s).nreject = s.nreject + 1 ∧ (E.attempt err fac0 s).T = s.T ∧
        (E.attempt err fac0 s).t = s.t ∧ (E.attempt err fac0 s).facmax = E.O.one ∧ (E.attempt err fac0 s).nstep = s.nstep) :=
  attempt_accept_iff E err fac0 s hf h1 h2

/-- step-size change is bounded: `fac1·dt ≤ dtnew ≤ facmax·dt` -/
theorem C08_fac_bounds_partial (E : RodasEnv ℚ) (hO : E.O = ratO) (fac0 : ℚ) (s : RodasState ℚ) (hf : E.opt.fixH = false)
    (hpos : 0 ≤ E.stepDt s) (hfac : E.opt.fac1 ≤ s.facmax) :
    E.stepDt s * E.opt.fac1 ≤ E.dtNew fac0 s ∧ E.dtNew fac0 s ≤ E.stepDt s * s.facmax :=
  dtNew_bounds E hO fac0 s hf hpos hfac

/-- more than 100 consecutive rejections or a step below `uround` end the run and are reported -/
theorem C08_failure_reported_partial {α} (E : RodasEnv α) (err fac0 : α) (s : RodasState α)
    (h : E.O.lt (E.O.abs s.dt) E.uround = true ∨ s.reject > 100) :
    (E.attempt err fac0 s).failed = true ∧ (E.attempt err fac0 s).done = true ∧ (E.attempt err fac0 s).T = s.T :=
  attempt_failure_reported E err fac0 s h

/-- every step-size proposal lies in `[hmin, hmax]` -/
theorem C08_dt_bounds_partial (E : RodasEnv ℚ) (hO : E.O = ratO) (err fac0 : ℚ) (s : RodasState ℚ)
    (h1 : E.O.lt (E.O.abs s.dt) E.uround = false) (h2 : ¬ s.reject > 100) (hm : E.hmin ≤ E.hmaxV) :
    E.hmin ≤ (E.attempt err fac0 s).dt ∧ (E.attempt err fac0 s).dt ≤ E.hmaxV :=
  attempt_dt_clamped E hO err fac0 s h1 h2 hm

/-! ### ode15s -/
open OdeEnv

/-- a retried step never grows: after any unsuccessful pass (Newton too slow, error test failed, order lowered) the step is
positive and at most the step it replaces; it stays within `hmax`, and the end point is approached from below -/
theorem C08_ode15s_retry_partial (E : OdeEnv ℚ) (H : OdeHyp E) (s : OdeState ℚ) (w : Work ℚ) (e : Inner ℚ) (he : Inner.ok e)
    (W : WorkInv E s w) : WorkInv E s (E.retry (E.hminAt s.t) w e) := H.retry_inv s w e he W

/-- the order moves by at most one per decision and never leaves `[1, maxk]` -/
theorem C08_ode15s_order_partial (E : OdeEnv ℚ) (absh hmin : ℚ) (k : Nat) (p : Temps ℚ) (w : Work ℚ) (e : Inner ℚ)
    (hk : 1 ≤ k ∧ k ≤ E.maxk) (hw : 1 ≤ w.k) :
    (1 ≤ (E.select absh k p).2 ∧ (E.select absh k p).2 ≤ E.maxk ∧ (E.select absh k p).2 ≤ k + 1 ∧ k ≤ (E.select absh k p).2 + 1) ∧
    (1 ≤ (E.retry hmin w e).k ∧ (E.retry hmin w e).k ≤ w.k ∧ w.k ≤ (E.retry hmin w e).k + 1) :=
  ⟨OdeHyp.select_order absh k p hk, OdeHyp.retry_order hmin w e hw⟩

/-- after a success the step is never reduced and grows by at most the factor 10 -/
theorem C08_ode15s_growth_partial (E : OdeEnv ℚ) (H : OdeHyp E) (absh : ℚ) (hp : 0 < absh) (k : Nat) (p : Temps ℚ)
    (hc : E.c10 = 10) (hc1 : E.c01 = 1 / 10) : absh ≤ (E.select absh k p).1 ∧ (E.select absh k p).1 ≤ 10 * absh :=
  ⟨H.select_ge absh k p, H.select_growth absh hp k p hc hc1⟩

end Solverz
