/-
  Properties/C08.lean — invariants of the adaptive step-size controller of Rodas (PARTIAL for the
  property: the global-error bound itself is numerical analysis and is only sampled by the check).
-/
import SolverzModel.Core.Ctl.Rodas
import SolverzModel.Proofs.Rodas
namespace Solverz
open RodasEnv

/-- a step is accepted exactly when the scaled error estimate is at most 1; acceptance counts a
step and clears the rejection counter, rejection counts a rejection, keeps time and output, and sets
`facmax = 1` (no growth directly after a rejection) -/
theorem C08_accept_iff_partial {α} (E : RodasEnv α) (err fac0 : α) (s : RodasState α) (hf : E.opt.fixH = false)
    (h1 : E.O.lt (E.O.abs s.dt) E.uround = false) (h2 : ¬ s.reject > 100) :
    (E.O.le err E.O.one = true → (E.attempt err fac0 s).reject = 0 ∧ (E.attempt err fac0 s).nstep = s.nstep + 1 ∧
        (E.attempt err fac0 s).nreject = s.nreject) ∧
    (E.O.le err E.O.one = false → (E.attempt err fac0 s).reject = s.reject + 1 ∧
        (E.attempt err fac0 s).nreject = s.nreject + 1 ∧ (E.attempt err fac0 s).T = s.T ∧
        (E.attempt err fac0 s).t = s.t ∧ (E.attempt err fac0 s).facmax = E.O.one ∧ (E.attempt err fac0 s).nstep = s.nstep) :=
  attempt_accept_iff E err fac0 s hf h1 h2

/-- step-size change is bounded: `fac1·dt ≤ dtnew ≤ facmax·dt` -/
theorem C08_fac_bounds_partial (E : RodasEnv ℚ) (hO : E.O = ratO) (fac0 : ℚ) (s : RodasState ℚ) (hf : E.opt.fixH = false)
    (hpos : 0 ≤ E.stepDt s) (hfac : E.opt.fac1 ≤ s.facmax) :
    E.stepDt s * E.opt.fac1 ≤ E.dtNew fac0 s ∧ E.dtNew fac0 s ≤ E.stepDt s * s.facmax :=
  dtNew_bounds E hO fac0 s hf hpos hfac

/-- more than 100 consecutive rejections or a step below `uround` end the run and are reported -/
theorem C08_failure_reported_partial {α} (E : RodasEnv α) (err fac0 : α) (s : RodasState α)
    (h : E.O.lt (E.O.abs s.dt) E.uround = true ∨ s.reject > 100) :
    (E.attempt err fac0 s).failed = true ∧ (E.attempt err fac0 s).done = true ∧ (E.attempt err fac0 s).T = s.T :=
  attempt_failure_reported E err fac0 s h

/-- every step-size proposal lies in `[hmin, hmax]` -/
theorem C08_dt_bounds_partial (E : RodasEnv ℚ) (hO : E.O = ratO) (err fac0 : ℚ) (s : RodasState ℚ)
    (h1 : E.O.lt (E.O.abs s.dt) E.uround = false) (h2 : ¬ s.reject > 100) (hm : E.hmin ≤ E.hmaxV) :
    E.hmin ≤ (E.attempt err fac0 s).dt ∧ (E.attempt err fac0 s).dt ≤ E.hmaxV :=
  attempt_dt_clamped E hO err fac0 s h1 h2 hm

end Solverz
