/-
  Properties/C07.lean — order conditions of the Rodas tables *as found in /repo now*
  (Generated/RodasTables.lean is rewritten from `Rodas_param` on every run).
  All numeric statements are decided by kernel evaluation over exact rationals
  (`decide +kernel`, no extra axioms); ε = 10⁻¹².
-/
import SolverzModel.Core.Rosenbrock
import SolverzModel.Generated.RodasTables
import SolverzModel.Proofs.Trees
namespace Solverz
open Generated

def eps : Rat := 1 / 1000000000000

/-- every tree of order ≤ p satisfies |Σ w_j Φ_j(t) − 1/γ(t)| ≤ ε -/
def orderOK (S : Scheme Rat) (w : List Rat) (p : Nat) : Bool :=
  (planeUpTo p).all fun t => decide (S.residual w t ≤ eps)

/-- some tree of order p+1 violates the condition by at least 10⁻⁶ (the order is sharp) -/
def orderSharp (S : Scheme Rat) (w : List Rat) (p : Nat) : Bool :=
  (planeOfOrder (p + 1)).any fun t => decide (S.residual w t ≥ 1 / 1000000)

/-- dense output of order q: for every tree of order ≤ q and every power τ^k (k = 1..4) the
coefficient of τ^k in Σ_j b_j(τ) Φ_j(t) is [k = ρ(t)]/γ(t), within ε -/
def denseOK (S : Scheme Rat) (q : Nat) : Bool :=
  (planeUpTo q).all fun t => [1, 2, 3, 4].all fun k =>
    decide (ratAbs (S.weight ratFld (S.denseCoeff ratFld k) t - (if k = t.order then 1 / (t.dens : Rat) else 0)) ≤ eps)

def listClose (xs ys : List Rat) : Bool :=
  xs.length == ys.length && (List.zipWith (fun x y => decide (ratAbs (x - y) ≤ eps)) xs ys).all id

/-- stiff accuracy: the last row of β is b, the row before is bd (padded with 0), and the
last two stages are evaluated at the end of the step (a = 1) -/
def stifflyAccurate (S : Scheme Rat) : Bool :=
  listClose ((S.beta ratFld).getD (S.s - 1) []) S.b &&
  listClose ((S.beta ratFld).getD (S.s - 2) []) S.bd &&
  decide (ratAbs (S.a.getD (S.s - 1) 0 - 1) ≤ eps) && decide (ratAbs (S.a.getD (S.s - 2) 0 - 1) ≤ eps)

/-- the auxiliary vectors the stage loop uses are the row sums of the tables:
    a_j = Σ_l α_jl,  g_j = Σ_l Γ_jl (diagonal included) -/
def rowSumsOK (S : Scheme Rat) : Bool :=
  listClose S.a ((S.alphaFull ratFld).map (ratFld.sum ·)) && listClose S.g ((S.Gamma ratFld).map (ratFld.sum ·))

def shapeOK (S : Scheme Rat) : Bool :=
  S.alpha.length == S.s && S.gt.length == S.s && S.alpha.all (·.length == S.s) && S.gt.all (·.length == S.s) &&
  S.b.length == S.s && S.bd.length == S.s && S.a.length == S.s && S.g.length == S.s &&
  -- strictly lower triangular α and γ̃: the stage loop is explicit in K
  ((List.range S.s).all fun j => (List.range S.s).all fun l =>
      l < j || ((S.alpha.getD j []).getD l 1 == 0 && (S.gt.getD j []).getD l 1 == 0)) &&
  decide (0 < S.gamma)

set_option maxRecDepth 100000

/-- the Boolean check over the (complete) enumeration gives the statement for **every** tree -/
theorem orderOK_all (S : Scheme Rat) (w : List Rat) (p : Nat) (hp : p ≤ 5) (h : orderOK S w p = true)
    (t : Tree) (ht : t.order ≤ p) : S.residual w t ≤ eps := by
  have hm := Tree.mem_planeUpTo t p hp ht
  simp only [orderOK, List.all_eq_true, decide_eq_true_eq] at h
  exact h t hm

-- ─────────────────────────── rodas4 (declared order 4, embedded 3, dense 3)
theorem C07_rodas4_shape : shapeOK rodas4 = true ∧ rodas4.pord = 4 := by decide +kernel
theorem C07_rodas4_order_b : orderOK rodas4 rodas4.b 4 = true := by decide +kernel
theorem C07_rodas4_order_bd : orderOK rodas4 rodas4.bd 3 = true := by decide +kernel
theorem C07_rodas4_order_sharp : orderSharp rodas4 rodas4.b 4 = true := by decide +kernel
theorem C07_rodas4_stiffly_accurate : stifflyAccurate rodas4 = true := by decide +kernel
theorem C07_rodas4_row_sums : rowSumsOK rodas4 = true := by decide +kernel
theorem C07_rodas4_dense : denseOK rodas4 3 = true := by decide +kernel

/-- **rodas4 has order 4 (b) and 3 (embedded)**: the order condition of *every* rooted tree with
at most 4 (resp. 3) vertices holds within ε. -/
theorem C07_rodas4_order_all (t : Tree) :
    (t.order ≤ 4 → rodas4.residual rodas4.b t ≤ eps) ∧ (t.order ≤ 3 → rodas4.residual rodas4.bd t ≤ eps) :=
  ⟨orderOK_all _ _ 4 (by omega) C07_rodas4_order_b t, orderOK_all _ _ 3 (by omega) C07_rodas4_order_bd t⟩

-- ─────────────────────────── rodasp (declared order 4, embedded 3, dense 3)
theorem C07_rodasp_shape : shapeOK rodasp = true ∧ rodasp.pord = 4 := by decide +kernel
theorem C07_rodasp_order_b : orderOK rodasp rodasp.b 4 = true := by decide +kernel
theorem C07_rodasp_order_bd : orderOK rodasp rodasp.bd 3 = true := by decide +kernel
theorem C07_rodasp_order_sharp : orderSharp rodasp rodasp.b 4 = true := by decide +kernel
theorem C07_rodasp_stiffly_accurate : stifflyAccurate rodasp = true := by decide +kernel
theorem C07_rodasp_row_sums : rowSumsOK rodasp = true := by decide +kernel
theorem C07_rodasp_dense : denseOK rodasp 3 = true := by decide +kernel

theorem C07_rodasp_order_all (t : Tree) :
    (t.order ≤ 4 → rodasp.residual rodasp.b t ≤ eps) ∧ (t.order ≤ 3 → rodasp.residual rodasp.bd t ≤ eps) :=
  ⟨orderOK_all _ _ 4 (by omega) C07_rodasp_order_b t, orderOK_all _ _ 3 (by omega) C07_rodasp_order_bd t⟩

-- ─────────────────────────── rodas5p (declared order 5, embedded 4, dense 4)
theorem C07_rodas5p_shape : shapeOK rodas5p = true ∧ rodas5p.pord = 5 := by decide +kernel
theorem C07_rodas5p_order_b : orderOK rodas5p rodas5p.b 5 = true := by decide +kernel
theorem C07_rodas5p_order_bd : orderOK rodas5p rodas5p.bd 4 = true := by decide +kernel
theorem C07_rodas5p_stiffly_accurate : stifflyAccurate rodas5p = true := by decide +kernel
theorem C07_rodas5p_row_sums : rowSumsOK rodas5p = true := by decide +kernel
theorem C07_rodas5p_dense : denseOK rodas5p 4 = true := by decide +kernel

theorem C07_rodas5p_order_all (t : Tree) :
    (t.order ≤ 5 → rodas5p.residual rodas5p.b t ≤ eps) ∧ (t.order ≤ 4 → rodas5p.residual rodas5p.bd t ≤ eps) :=
  ⟨orderOK_all _ _ 5 (by omega) C07_rodas5p_order_b t, orderOK_all _ _ 4 (by omega) C07_rodas5p_order_bd t⟩

-- ─────────────────────────── rodas3d (undocumented; algebraic part only: order 3 / 2)
theorem C07_rodas3d_order_b : orderOK rodas3d rodas3d.b 3 = true := by decide +kernel
theorem C07_rodas3d_order_bd : orderOK rodas3d rodas3d.bd 2 = true := by decide +kernel
theorem C07_rodas3d_stiffly_accurate : stifflyAccurate rodas3d = true := by decide +kernel

theorem scale_one_rat (xs : List Rat) : Fld.scale ratFld 1 xs = xs := by
  simp [Fld.scale, ratFld, Rat.one_mul]

theorem vadd_scale_zero (xs ys : List Rat) (h : xs.length ≤ ys.length) :
    Fld.vadd ratFld xs (Fld.scale ratFld (ratFld.sub 1 ratFld.one) ys) = xs := by
  induction xs generalizing ys with
  | nil => simp [Fld.vadd]
  | cons x xs ih =>
    cases ys with
    | nil => simp at h
    | cons y ys =>
      have := ih ys (by simpa using h)
      simp only [Fld.vadd, Fld.scale, ratFld, List.map_cons, List.zipWith_cons_cons] at this ⊢
      rw [this]
      simp [Rat.sub_self, Rat.zero_mul, Rat.add_zero]

theorem vadd_length (xs ys : List Rat) : (Fld.vadd ratFld xs ys).length = min xs.length ys.length := by
  simp [Fld.vadd]

theorem scale_length (k : Rat) (xs : List Rat) : (Fld.scale ratFld k xs).length = xs.length := by
  simp [Fld.scale]

/-- **Dense output joins the step values continuously**, for *any* table: every weight b_j(τ)
vanishes at τ = 0 and equals b_j at τ = 1. -/
theorem C07_dense_joins (S : Scheme Rat) :
    (∀ x ∈ S.denseW ratFld 0, x = 0) ∧
    (S.b.length = S.c.length → S.c.length = S.d.length → S.d.length = S.e.length → S.denseW ratFld 1 = S.b) := by
  constructor
  · intro x hx
    simp only [Scheme.denseW, Fld.scale, ratFld, List.mem_map] at hx
    obtain ⟨y, _, rfl⟩ := hx
    exact Rat.zero_mul y
  · intro h1 h2 h3
    simp only [Scheme.denseW]
    rw [scale_one_rat]
    apply vadd_scale_zero
    rw [vadd_length, scale_length, vadd_length, scale_length]
    omega

/-- non-vacuity: the bushy tree with four leaves has order 5 and density 5 -/
example : (Tree.node [.nil, .nil, .nil, .nil]).order = 5 ∧ (Tree.node [.nil, .nil, .nil, .nil]).dens = 5 ∧
    (Tree.node [.nil, .nil, .nil, .nil]) ∈ planeUpTo 5 := by decide

/-- the tree tables: 1, 1, 2, 4, 9 trees of orders 1..5, each of the stated order -/
theorem C07_tree_counts :
    ([1, 2, 3, 4, 5].map fun p => (treesOfOrder p).length) = [1, 1, 2, 4, 9] ∧
    ([1, 2, 3, 4, 5].all fun p => (treesOfOrder p).all fun t => t.order == p) = true := by decide

end Solverz
