/-
  Properties/C04.lean — property theorems for C04 (mass matrix).
  `T` are the COO triplets the model of `DAE.M` hands to `csc_array` (all data = 1).
-/
import SolverzModel.Core.Mass
import SolverzModel.Proofs.Mass
import SolverzModel.Proofs.Sel
namespace Solverz

/-- **Single 1 per ODE element, zero rows for algebraic equations.**
For any declaration whose mass matrix is produced (no error), element `i` of equation `k`
occupies row `offs k + i` (declaration order of *all* equations, whatever the interleaving);
that row holds exactly one triplet, in the column of the `i`-th selected element of the
differentiated variable, if the equation is an `Ode`; and no triplet if it is algebraic. -/
theorem C04_row_exact (d : DaeDecl) (rs : List REq) (T : List (Nat × Nat)) (R C : Nat)
    (hres : d.resolved = .ok rs) (hm : d.mass = .ok (T, R, C))
    (k : Nat) (hk : k < rs.length) (i : Nat) (hi : i < rs[k].size) :
    rowOf T (offs rs k + i) =
      match rs[k].cols with
      | some cols => [(offs rs k + i, cols.getD i 0)]
      | none => [] := by
  unfold DaeDecl.mass at hm
  simp only [hres, bind, Except.bind] at hm
  split at hm
  · cases hm
  · cases ha : assemble rs 0 with
    | error e => simp [ha] at hm
    | ok T' =>
      simp only [ha, Except.ok.injEq, Prod.mk.injEq] at hm
      obtain ⟨rfl, _, _⟩ := hm
      have := assemble_row_exact rs 0 T' ha k hk i hi
      simp only [Nat.zero_add] at this
      exact this

/-- **Algebraic rows are all-zero.** -/
theorem C04_alg_rows_zero (d : DaeDecl) (rs : List REq) (T : List (Nat × Nat)) (R C : Nat)
    (hres : d.resolved = .ok rs) (hm : d.mass = .ok (T, R, C))
    (k : Nat) (hk : k < rs.length) (halg : rs[k].cols = none) (i : Nat) (hi : i < rs[k].size) :
    rowOf T (offs rs k + i) = [] := by
  have := C04_row_exact d rs T R C hres hm k hk i hi
  simpa [halg] using this

/-- **The matrix is 0/1 with at most one 1 per row, and has the reported shape**: every row
holds at most one triplet, every triplet lies inside `R × …`, and `R` is the total equation size. -/
theorem C04_zero_one (d : DaeDecl) (rs : List REq) (T : List (Nat × Nat)) (R C : Nat)
    (hres : d.resolved = .ok rs) (hm : d.mass = .ok (T, R, C)) (r : Nat) :
    (rowOf T r).length ≤ 1 ∧ (∀ t ∈ T, t.1 < R) ∧ R = DaeDecl.eqnTotal rs ∧ C = d.vars.sum := by
  have hm0 := hm
  unfold DaeDecl.mass at hm
  simp only [hres, bind, Except.bind] at hm
  split at hm
  · cases hm
  · cases ha : assemble rs 0 with
    | error e => simp [ha] at hm
    | ok T' =>
      simp only [ha, Except.ok.injEq, Prod.mk.injEq] at hm
      obtain ⟨rfl, rfl, rfl⟩ := hm
      have hrows := assemble_rows rs 0 T' ha
      refine ⟨?_, fun t ht => by have := hrows t ht; omega, rfl, rfl⟩
      by_cases hr : r < DaeDecl.eqnTotal rs
      · obtain ⟨k, hk, i, hi, rfl⟩ := row_decompose rs r hr
        rw [C04_row_exact d rs T' _ _ hres hm0 k hk i hi]
        split <;> simp
      · rw [rowOf_eq_nil_of_forall (fun t ht => by have := hrows t ht; omega)]; simp

/-- `M · y'` over the rationals, computed from the triplets (all data are 1) -/
def mulVec (T : List (Nat × Nat)) (y : Nat → Rat) (r : Nat) : Rat := ((rowOf T r).map fun t => y t.2).sum

/-- **M·dy/dt = F is the declared system.**  Row `offs k + i` of `M·y'` is the derivative of the
`i`-th selected element of the differentiated variable for an `Ode`, and `0` for an algebraic
equation — so `M·y' = F` reads `d/dt x_sel[i] = f_k[i]` resp. `0 = g_k[i]`. -/
theorem C04_mulVec (d : DaeDecl) (rs : List REq) (T : List (Nat × Nat)) (R C : Nat)
    (hres : d.resolved = .ok rs) (hm : d.mass = .ok (T, R, C)) (y' : Nat → Rat)
    (k : Nat) (hk : k < rs.length) (i : Nat) (hi : i < rs[k].size) :
    mulVec T y' (offs rs k + i) =
      match rs[k].cols with
      | some cols => y' (cols.getD i 0)
      | none => 0 := by
  unfold mulVec
  rw [C04_row_exact d rs T R C hres hm k hk i hi]
  split <;> simp [Rat.add_zero]

/-- **diff_var resolution.**  The selected columns of `x`, `x[i]`, `x[a:b]`, `x[a:b:s]`, `x[[k…]]` all lie inside the
variable's own range of the flat vector; for the contiguous forms they are strictly increasing (distinct elements). -/
theorem C04_cols_within (vars : List Nat) (dv : DiffVar) (cols : List Nat) (h : dv.cols vars = .ok cols) :
    ∃ v n, vars[v]? = some n ∧ (∀ c ∈ cols, varStart vars v ≤ c ∧ c < varStart vars v + n) ∧
      ((∀ w a b st, dv ≠ .strided w a b st) → (∀ w ks, dv ≠ .pick w ks) → cols.Pairwise (· < ·)) := by
  cases dv with
  | whole v =>
    simp only [DiffVar.cols] at h
    split at h
    · cases h
    · rename_i n hn
      cases h
      exact ⟨v, n, hn, fun c hc => cols_range_mem _ _ c hc, fun _ _ => cols_range_pairwise _ _⟩
  | idx v i =>
    simp only [DiffVar.cols] at h
    split at h
    · cases h
    · rename_i n hn
      cases h
      have hb := sliceBounds_le n i (i + 1)
      refine ⟨v, n, hn, fun c hc => ?_, fun _ _ => cols_range_pairwise _ _⟩
      have := cols_range_mem _ _ c hc
      omega
  | slice v a b =>
    simp only [DiffVar.cols] at h
    split at h
    · cases h
    · rename_i n hn
      cases h
      have hb := sliceBounds_le n (a.getD 0) (b.getD n)
      refine ⟨v, n, hn, fun c hc => ?_, fun _ _ => cols_range_pairwise _ _⟩
      have := cols_range_mem _ _ c hc
      omega
  | strided v a b st =>
    simp only [DiffVar.cols] at h
    split at h
    · cases h
    · rename_i n hn
      split at h
      · cases h
      · rename_i hs
        cases h
        refine ⟨v, n, hn, fun c hc => ?_, fun hne _ => absurd rfl (hne v a b st)⟩
        simp only [List.mem_map, List.mem_range] at hc
        obtain ⟨j, hj, rfl⟩ := hc
        have := strided_within n a b st hs j hj
        omega
  | pick v ks =>
    simp only [DiffVar.cols] at h
    split at h
    · cases h
    · rename_i n hn
      simp only [bind, Except.bind] at h
      cases hm : List.mapM (Heap.normIdx n) ks with
      | error e => simp [hm] at h
      | ok js =>
        simp only [hm, Except.ok.injEq] at h; subst h
        refine ⟨v, n, hn, fun c hc => ?_, fun _ hne => absurd rfl (hne v ks)⟩
        simp only [List.mem_map] at hc
        obtain ⟨j, hj, rfl⟩ := hc
        have := mapM_normIdx_lt hm j hj
        omega

/-- a reversed slice pairs the equation elements with the variable's elements in *reverse* order: `x[3:0:-1]` of a
variable at offset 2 selects columns 5, 4, 3 in that order (the triplets keep the order, nothing is sorted) -/
example : (DiffVar.strided 1 (some 3) (some 0) (-1)).cols [2, 4] = .ok [5, 4, 3] := by decide
example : (DiffVar.pick 1 [3, 1, -2]).cols [2, 4] = .ok [5, 3, 4] := by decide

/-- a whole variable as `diff_var` selects exactly its range, in order -/
theorem C04_cols_whole (vars : List Nat) (v n : Nat) (h : vars[v]? = some n) :
    (DiffVar.whole v).cols vars = .ok ((List.range n).map (varStart vars v + ·)) := by
  simp [DiffVar.cols, h]

/-- non-vacuity: an `Eqn` declared *before* two `Ode`s, one differentiating a slice -/
example : (DaeDecl.mk [2, 3] [⟨none, 1⟩, ⟨some (.slice 1 (some 1) none), 1⟩, ⟨some (.whole 0), 2⟩]).mass
    = .ok ([(1, 3), (2, 4), (3, 0), (4, 1)], 5, 5) := by rfl

end Solverz
