/-
  Properties/C05.lean — the Hessian-vector product of the reference semantics is the derivative of J·v.
-/
import SolverzModel.Core.Lang
import SolverzModel.Proofs.Diff
import Mathlib.Analysis.Calculus.Deriv.Add
import Mathlib.Algebra.BigOperators.Group.Finset.Basic
namespace Solverz
open SEx Finset

theorem foldl_add_eq_sum (g : ℕ → ℝ) (n : ℕ) :
    (List.range n).foldl (fun acc k => realF.add acc (g k)) realF.zero = ∑ k ∈ Finset.range n, g k := by
  induction n with
  | zero => simp
  | succ m ih =>
    rw [List.range_succ, List.foldl_append, ih, Finset.sum_range_succ]
    simp

/-- **HVP = d(J·v)/dy.**  For a residual element `e`, a direction `v` and a state element `c`: the function
`x ↦ Σ_k ∂e/∂y_k [y c := x] · v_k` (element of `J·v`) has derivative `Σ_k ∂²e/∂y_c∂y_k · v_k` at `y c`,
whenever the first derivatives are away from their kinks. -/
theorem C05_hvp_is_derivative (e : SEx ℝ) (n c : ℕ) (ρ : Env ℝ) (v : ℕ → ℝ)
    (hk : ∀ k, k < n → KinkFree ρ (SEx.diff realF k e)) :
    HasDerivAt (fun x => ∑ k ∈ Finset.range n, eval realF (ρ.setY c x) (SEx.diff realF k e) * v k)
      (∑ k ∈ Finset.range n, eval realF ρ (SEx.diff realF c (SEx.diff realF k e)) * v k) (ρ.y c) := by
  have := HasDerivAt.sum (u := Finset.range n)
    (A := fun k x => eval realF (ρ.setY c x) (SEx.diff realF k e) * v k)
    (A' := fun k => eval realF ρ (SEx.diff realF c (SEx.diff realF k e)) * v k) (x := ρ.y c)
    (fun k hkm => (diff_correct (SEx.diff realF k e) c ρ (hk k (Finset.mem_range.mp hkm))).mul_const (v k))
  have hfun : (fun x => ∑ k ∈ Finset.range n, eval realF (ρ.setY c x) (SEx.diff realF k e) * v k)
      = ∑ k ∈ Finset.range n, fun x => eval realF (ρ.setY c x) (SEx.diff realF k e) * v k := by
    funext x; simp
  rw [hfun]
  exact this

/-- the entries `evalH` computes are exactly those sums -/
theorem C05_evalH_entries (m : LModel ℝ) (ρ : Env ℝ) (v : ℕ → ℝ) (res : List (SEx ℝ)) (hres : m.residual = .ok res) :
    m.evalH realF ρ v = .ok (res.map fun e => (List.range m.L.vars.sum).map fun c =>
      ∑ k ∈ Finset.range m.L.vars.sum, eval realF ρ (SEx.diff realF c (SEx.diff realF k e)) * v k) := by
  simp only [LModel.evalH, hres, bind, Except.bind]
  congr 1
  apply List.map_congr_left; intro e _
  apply List.map_congr_left; intro c _
  have := foldl_add_eq_sum (fun k => eval realF ρ (SEx.diff realF c (SEx.diff realF k e)) * v k) m.L.vars.sum
  simpa using this

/-- non-vacuity: `e = y0² · y1`, `v = (1, 2)`: (J·v) = 2·y0·y1 + 2·y0², its derivative w.r.t. y0 is 2·y1 + 4·y0 -/
example : (∑ k ∈ Finset.range 2,
    eval realF ⟨fun i => if i = 0 then 3 else 5, fun _ => 0, fun _ => 0⟩
      (SEx.diff realF 0 (SEx.diff realF k (.mul (.powi (.y 0) 2) (.y 1)))) * (if k = 0 then 1 else 2)) = 2 * 5 + 4 * 3 := by
  simp [Finset.sum_range_succ, SEx.diff, eval, powNat]
  norm_num

end Solverz
