/-
  Properties/C03.lean — a rendered module finds its own pickle on the platform it was rendered on,
  independently of the working directory, and re-rendering replaces all four files.
  (Agreement of the values computed by the backends is tied by the differential runs of the check
  and by C02/C04/C05; here: the file-level facts.)
-/
import SolverzModel.Core.Fs
import SolverzModel.Generated.ModuleFs
namespace Solverz

/-- `os.path.join` and a literal `/` address the file the module was saved as, on both platforms -/
theorem C03_join_ok (pl : Platform) (dir : List String) (file : String) :
    joinPath pl .osJoin dir file = dir ++ [file] ∧ joinPath pl (.literal '/') dir file = dir ++ [file] := by
  constructor
  · rfl
  · cases pl <;> simp [joinPath, Platform.isSep]

/-- a literal backslash does **not** on POSIX: it glues the file name onto the directory name
(the defect repaired in /repo) -/
theorem C03_backslash_fails_on_posix (dir : List String) (d file : String) :
    joinPath .posix (.literal '\\') (dir ++ [d]) file ≠ (dir ++ [d]) ++ [file] := by
  simp [joinPath, Platform.isSep]

/-- **Load path = save path** for the joiner *currently generated* by /repo, on both platforms and
for every directory: the pickle is looked for exactly where `create_python_module` saved it. -/
theorem C03_load_path_is_save_path (pl : Platform) (moduleDir : List String) :
    joinPath pl Generated.loadJoiner moduleDir "param_and_setting.pkl"
      = joinPath pl (.literal '/') moduleDir "param_and_setting.pkl" := by
  cases pl <;> simp [Generated.loadJoiner, joinPath, Platform.isSep]

/-- the module directory comes from `abspath(__file__)`: no dependence on the working directory -/
theorem C03_cwd_independent : Generated.moduleDirFromFile = true := by decide

/-- all four files are written on every render, unconditionally -/
theorem C03_writes_unconditional :
    Generated.unconditionalSourceWrites = 3 ∧ Generated.unconditionalPickleSaves = 1 ∧ Generated.conditionalWrites = 0 := by decide

theorem read_write_same (fs : Fs) (p : List String) (c : String) : (fs.write p c).read p = some c := by
  unfold Fs.write Fs.read
  rw [List.find?_cons]
  have : ((p, c).1 == p) = true := by simp
  simp only [this, Option.map_some]

theorem read_write_other (fs : Fs) (p q : List String) (c : String) (h : p ≠ q) : (fs.write p c).read q = fs.read q := by
  unfold Fs.write Fs.read
  rw [List.find?_cons]
  have : ((p, c).1 == q) = false := beq_eq_false_iff_ne.mpr h
  simp only [this]

theorem renderModule_eq (pl : Platform) (fs : Fs) (loc : List String) (a b c d : String) :
    renderModule pl fs loc a b c d =
      (((fs.write (loc ++ ["__init__.py"]) a).write (loc ++ ["dependency.py"]) b).write (loc ++ ["num_func.py"]) c).write
        (loc ++ ["param_and_setting.pkl"]) d := by
  unfold renderModule
  rw [(C03_join_ok pl loc "param_and_setting.pkl").2]
  rfl

theorem path_ne (loc : List String) (f g : String) (h : f ≠ g) : loc ++ [f] ≠ loc ++ [g] := by
  intro e
  have := List.append_cancel_left e
  simp at this
  exact h this

/-- **Re-rendering replaces the earlier model completely**: after rendering contents `c₂` over a
file system that already holds any earlier rendering at the same location, each of the four files
reads as `c₂`'s. -/
theorem C03_rerender_overwrites (pl : Platform) (fs : Fs) (loc : List String) (a b c d a' b' c' d' : String) :
    let fs1 := renderModule pl fs loc a b c d
    let fs2 := renderModule pl fs1 loc a' b' c' d'
    fs2.read (loc ++ ["__init__.py"]) = some a' ∧ fs2.read (loc ++ ["dependency.py"]) = some b' ∧
    fs2.read (loc ++ ["num_func.py"]) = some c' ∧ fs2.read (loc ++ ["param_and_setting.pkl"]) = some d' := by
  intro fs1 fs2
  have e2 : fs2 = (((fs1.write (loc ++ ["__init__.py"]) a').write (loc ++ ["dependency.py"]) b').write (loc ++ ["num_func.py"]) c').write
        (loc ++ ["param_and_setting.pkl"]) d' := renderModule_eq pl fs1 loc a' b' c' d'
  rw [e2]
  refine ⟨?_, ?_, ?_, ?_⟩
  · rw [read_write_other _ _ _ _ (path_ne loc _ _ (by decide)), read_write_other _ _ _ _ (path_ne loc _ _ (by decide)),
        read_write_other _ _ _ _ (path_ne loc _ _ (by decide)), read_write_same]
  · rw [read_write_other _ _ _ _ (path_ne loc _ _ (by decide)), read_write_other _ _ _ _ (path_ne loc _ _ (by decide)),
        read_write_same]
  · rw [read_write_other _ _ _ _ (path_ne loc _ _ (by decide)), read_write_same]
  · rw [read_write_same]

end Solverz
