/-
  Properties/C16.lean — property theorems for C16 (named access and flat storage).
  Only statements of the property live here; helper lemmas are in Proofs/.
-/
import SolverzModel.Core.Vars
import SolverzModel.Proofs.Address
import SolverzModel.Proofs.Vars
namespace Solverz
open Address Heap

/-- **Layout.** For a layout with distinct names, the range of the `i`-th declared variable is
`[start i, start i + len i)`, the first starts at 0, each next one starts where the previous
one ends, and the last one ends at `total`: contiguous, disjoint, covering, in declaration order. -/
theorem C16_layout (a : Address) (h : a.WF) :
    (∀ i (hi : i < a.names.length), a.range? a.names[i] = some (a.start i, a.lens.getD i 0))
    ∧ a.start 0 = 0
    ∧ (∀ i, i < a.lens.length → a.start (i+1) = a.start i + a.lens.getD i 0)
    ∧ a.start a.lens.length = a.total :=
  ⟨fun i hi => range_of_nodup a h.1 i hi, start_zero a, fun i hi => start_succ a i hi, start_length a⟩

/-- ranges of different variables do not overlap -/
theorem C16_disjoint (a : Address) (i j : Nat) (hij : i < j) (hj : j < a.lens.length) :
    a.start i + a.lens.getD i 0 ≤ a.start j := by
  rw [← start_succ a i (by omega)]
  exact start_mono a hij

/-- every range lies inside the flat array -/
theorem C16_range_within (a : Address) (i : Nat) (hi : i < a.lens.length) :
    a.start i + a.lens.getD i 0 ≤ a.total := by
  rw [← start_succ a i hi]; exact start_le_total a _

/-- the name → slice lookup answers exactly for declared names -/
theorem C16_slice_iff (a : Address) (n : String) :
    (∃ r, a.slice n = .ok r) → n ∈ a.names := by
  intro ⟨r, hr⟩
  unfold Address.slice at hr
  cases hq : a.range? n with
  | none => simp [hq] at hr
  | some p =>
    unfold range? at hq
    cases hi : a.idx? n with
    | none => simp [hi] at hq
    | some i =>
      have := idx_getElem a n i hi
      rw [← this]; exact List.getElem_mem _

/-- `add` and `update` keep a layout well-formed; a duplicate name is refused -/
theorem C16_add_wf (a : Address) (h : a.WF) (n : String) (len : Nat) :
    (n ∈ a.names → a.add n len = .error .key) ∧
    (n ∉ a.names → ∃ b, a.add n len = .ok b ∧ b.WF ∧ b.names = a.names ++ [n] ∧ b.lens = a.lens ++ [len]) := by
  constructor
  · intro hn; simp [Address.add, hn]
  · intro hn
    refine ⟨⟨a.names ++ [n], a.lens ++ [len]⟩, by simp [Address.add, hn], ?_, rfl, rfl⟩
    refine ⟨?_, by simp [h.2]⟩
    refine List.nodup_append.mpr ⟨h.1, by simp, ?_⟩
    intro x hx y hy hxy
    simp only [List.mem_singleton] at hy
    subst hy; subst hxy; exact hn hx

theorem C16_update_wf (a : Address) (h : a.WF) (n : String) (len : Nat) (b : Address)
    (hu : a.update n len = .ok b) : b.WF ∧ b.names = a.names ∧ b.lens.length = a.lens.length := by
  unfold Address.update at hu
  split at hu
  · cases hu
  · cases hu; exact ⟨⟨h.1, by simp [h.2]⟩, rfl, by simp⟩

/-- **Read by name** returns exactly the variable's slice of the flat array. -/
theorem C16_get (α) (h : Heap α) (vid : Nat) (n : String) (v : VarsObj α) (a : Address) (s e : Nat)
    (hv : h.getVars vid = .ok v) (ha : h.getAddr v.aid = .ok a) (hs : a.slice n = .ok (s, e)) :
    h.varsGet vid n = .ok (readSlice v.arr s (e - s)) := by
  simp [Heap.varsGet, hv, ha, hs, bind, Except.bind]

/-- **Assign by name** touches exactly that slice: afterwards the slice holds the new values,
every other position of the flat array and every other object is unchanged; a value of the
wrong length is refused. -/
theorem C16_set (α) (h : Heap α) (vid : Nat) (n : String) (val : List α) (v : VarsObj α) (a : Address) (s e : Nat)
    (hv : h.getVars vid = .ok v) (ha : h.getAddr v.aid = .ok a) (hs : a.slice n = .ok (s, e))
    (hfit : e ≤ v.arr.length) (hse : s ≤ e) :
    (val.length ≠ e - s → h.varsSet vid n val = .error .value) ∧
    (val.length = e - s → ∃ h', h.varsSet vid n val = .ok h' ∧
        h'.addrs = h.addrs ∧ h'.bufs = h.bufs ∧ h'.tvs = h.tvs ∧
        h'.vars = setAt h.vars vid ⟨v.aid, writeSlice v.arr s val⟩ ∧
        (writeSlice v.arr s val).length = v.arr.length ∧
        readSlice (writeSlice v.arr s val) s (e - s) = val ∧
        (∀ j, j < s ∨ e ≤ j → (writeSlice v.arr s val)[j]? = v.arr[j]?)) := by
  have hr : ∃ p, a.range? n = some p := by
    unfold Address.slice at hs
    cases hq : a.range? n with
    | none => simp [hq] at hs
    | some p => exact ⟨p, rfl⟩
  obtain ⟨p, hp⟩ := hr
  constructor
  · intro hne
    simp [Heap.varsSet, hv, ha, hs, hp, bind, Except.bind, hne]
  · intro heq
    refine ⟨{ h with vars := setAt h.vars vid ⟨v.aid, writeSlice v.arr s val⟩ }, ?_, rfl, rfl, rfl, rfl, ?_, ?_, ?_⟩
    · simp [Heap.varsSet, hv, ha, hs, hp, bind, Except.bind, heq]
    · exact writeSlice_length v.arr s val (by omega)
    · rw [← heq]; exact readSlice_writeSlice v.arr s val (by omega)
    · intro j hj; exact writeSlice_getElem?_outside v.arr s val j (by omega)

/-- **Arithmetic with a scalar** (any operator, either side): the result is a *new* object
(index = old object count), element-wise, every operand and bystander is unchanged. -/
theorem C16_arith_scalar (α) (A : Arith α) (h : Heap α) (vid : Nat) (op : BinOp) (left : Bool) (x : α)
    (v : VarsObj α) (a : Address) (hv : h.getVars vid = .ok v) (ha : h.getAddr v.aid = .ok a)
    (hlen : v.arr.length = a.total) :
    ∃ h' aid', h.varsArith A vid op left (.scalar x) = .ok (h', .vars h.vars.length) ∧
      h'.vars = h.vars ++ [⟨aid', v.arr.map (fun y => if left then A.ap op y x else A.ap op x y)⟩] ∧
      h'.addrs[aid']? = some a ∧
      (∀ i, i < h.addrs.length → h'.addrs[i]? = h.addrs[i]?) ∧ h'.bufs = h.bufs ∧ h'.tvs = h.tvs :=
  varsArith_scalar A h vid op left x v a hv ha hlen

/-- **Arithmetic between two same-length collections** (the left operand's method is the one
Python dispatches): new object, element-wise, operands unchanged.  For `*` the layouts must be
equal, otherwise the operation is refused. -/
theorem C16_arith_vars (α) (A : Arith α) (h : Heap α) (vid wid : Nat) (op : BinOp)
    (v w : VarsObj α) (a b : Address) (hv : h.getVars vid = .ok v) (hw : h.getVars wid = .ok w)
    (ha : h.getAddr v.aid = .ok a) (hb : h.getAddr w.aid = .ok b)
    (hlen : v.arr.length = a.total) (hsame : w.arr.length = v.arr.length) (hab : a.beq b = true) :
    ∃ h' aid', h.varsArith A vid op true (.vars wid) = .ok (h', .vars h.vars.length) ∧
      h'.vars = h.vars ++ [⟨aid', List.zipWith (A.ap op) v.arr w.arr⟩] ∧
      h'.addrs[aid']? = some a ∧
      (∀ i, i < h.addrs.length → h'.addrs[i]? = h.addrs[i]?) ∧ h'.bufs = h.bufs ∧ h'.tvs = h.tvs :=
  varsArith_vars A h vid wid op v w a b hv hw ha hb hlen hsame hab

theorem C16_mul_refuses_other_layout (α) (A : Arith α) (h : Heap α) (vid wid : Nat)
    (v w : VarsObj α) (a b : Address) (hv : h.getVars vid = .ok v) (hw : h.getVars wid = .ok w)
    (ha : h.getAddr v.aid = .ok a) (hb : h.getAddr w.aid = .ok b) (hab : a.beq b = false) :
    h.varsArith A vid .mul true (.vars wid) = .error .value := by
  simp [Heap.varsArith, hv, hw, ha, hb, hab, bind, Except.bind]

/-- **Solver results by name.** `parse_dae_v(Y, a)[n]` is the block of columns of `Y` at the
variable's slice, row by row. -/
theorem C16_solver_columns (α) (h : Heap α) (aid : Nat) (Y : List (List α)) (a : Address) (n : String) (s e : Nat)
    (ha : h.getAddr aid = .ok a) (hs : a.slice n = .ok (s, e)) (h' : Heap α) (tid : Nat)
    (hp : h.parseDae aid Y = .ok (h', tid)) :
    h'.tvGetName tid n = .ok (Y.map fun r => readSlice r s (e - s)) :=
  parseDae_columns h aid Y a n s e ha hs h' tid hp

/-- `parse_ae_v(y, a)[n]` is `y` restricted to the variable's slice. -/
theorem C16_solver_slice (α) (h : Heap α) (aid : Nat) (y : List α) (a : Address) (n : String) (s e : Nat)
    (ha : h.getAddr aid = .ok a) (hs : a.slice n = .ok (s, e)) (h' : Heap α) (vid : Nat)
    (hp : h.parseAe aid y = .ok (h', vid)) :
    h'.varsGet vid n = .ok (readSlice y s (e - s)) :=
  parseAe_slice h aid y a n s e ha hs h' vid hp

/-- **Every reachable state is consistent.**  Starting from the empty heap, after any finite
sequence of operations (with `add`/`update` confined to layouts not yet bound to a
collection, the documented usage) every collection's flat array has exactly the size of its
layout and every time-series row has that width. -/
theorem C16_reachable_consistent (α) (A : Arith α) (ops : List (Op α)) :
    HeapInv (Heap.runOps A ({} : Heap α) ops) :=
  runOps_inv A {} ops heapInv_empty

/-- non-vacuity: a concrete two-variable layout is well formed and the hypotheses of the
set/get theorems are met -/
example : (⟨["x", "y"], [2, 3]⟩ : Address).WF ∧
    (⟨["x", "y"], [2, 3]⟩ : Address).slice "y" = .ok (2, 5) := by
  refine ⟨by decide, by rfl⟩

/-- non-vacuity of the reachability theorem: a run that allocates, binds, assigns and does
arithmetic ends in a heap with three collections -/
example : (Heap.runOps (⟨(· + ·), (· - ·), (· * ·), (· / ·), 0⟩ : Arith Int) {}
    [.anew, .aadd 0 "x" 2, .aadd 0 "y" 1, .vnew 0 [1, 2, 3], .vset 0 "y" [7],
     .vop 0 .mul true (.scalar 2), .vop 0 .add true (.vars 1), .aupd 0 "x" 5]).vars.map (·.arr)
    = [[1, 2, 7], [2, 4, 14], [3, 6, 21]] := by decide

/-- combining two layouts never produces a name twice: when it succeeds the names of the result are those of the two operands, each
once (D-C16-F3: before the repair `combine_Address` skipped the duplicate test of `Address.add`, and both entries of a repeated name
were served the first slice) -/
theorem C16_combine_names_nodup (a b c : Address) (ha : a.names.Nodup) (hb : b.names.Nodup) (h : a.combine b = .ok c) :
    c.names = a.names ++ b.names ∧ c.lens = a.lens ++ b.lens ∧ c.names.Nodup := by
  unfold Address.combine at h
  split at h
  · cases h
  · rename_i hany
    cases h
    refine ⟨rfl, rfl, ?_⟩
    rw [List.nodup_append]
    refine ⟨ha, hb, ?_⟩
    intro x hx y hy hxy
    subst hxy
    apply hany
    simp only [List.any_eq_true]
    exact ⟨x, hy, by simpa using hx⟩

/-- a shared name is refused -/
example : (Address.combine ⟨["x", "x0"], [2, 1]⟩ ⟨["x0", "x00"], [2, 1]⟩).toOption = none := by decide

/-- **Row assignment of a time series is refused** when the index is outside `[-len, len)` or when the assigned collection does not
have the width of the series (before the repair of D42 an index of −1 or `len` wrote nothing and returned normally, and a size-one
collection was broadcast over the row) -/
theorem C16_tset_refuses (α) (h : Heap α) (tid vid : Nat) (key : Int) (t : TVObj) (v : VarsObj α) (a : Address)
    (ht : h.getTV tid = .ok t) (hv : h.getVars vid = .ok v) (ha : h.getAddr t.aid = .ok a)
    (hbad : key ≥ (t.len : Int) ∨ key < -(t.len : Int) ∨ v.arr.length ≠ h.tvWidth t a) :
    ∃ e, h.tvSetRow tid key vid = .error e := by
  unfold tvSetRow
  simp only [ht, hv, bind, Except.bind]
  by_cases hk : key ≥ (t.len : Int) ∨ key < -(t.len : Int)
  · simp [hk]
  · simp only [hk, if_false, ha]
    have hw : v.arr.length ≠ h.tvWidth t a := by
      rcases hbad with h1 | h1 | h1
      · exact absurd (Or.inl h1) hk
      · exact absurd (Or.inr h1) hk
      · exact h1
    simp [hw]

/-- and when it succeeds the index was in range and the widths agree -/
theorem C16_tset_ok (α) (h h' : Heap α) (tid vid : Nat) (key : Int) (t : TVObj) (v : VarsObj α) (a : Address)
    (ht : h.getTV tid = .ok t) (hv : h.getVars vid = .ok v) (ha : h.getAddr t.aid = .ok a)
    (hok : h.tvSetRow tid key vid = .ok h') :
    -(t.len : Int) ≤ key ∧ key < (t.len : Int) ∧ v.arr.length = h.tvWidth t a := by
  by_cases h1 : key ≥ (t.len : Int)
  · obtain ⟨e, he⟩ := C16_tset_refuses α h tid vid key t v a ht hv ha (Or.inl h1); rw [he] at hok; cases hok
  by_cases h2 : key < -(t.len : Int)
  · obtain ⟨e, he⟩ := C16_tset_refuses α h tid vid key t v a ht hv ha (Or.inr (Or.inl h2)); rw [he] at hok; cases hok
  by_cases h3 : v.arr.length = h.tvWidth t a
  · exact ⟨by omega, by omega, h3⟩
  · obtain ⟨e, he⟩ := C16_tset_refuses α h tid vid key t v a ht hv ha (Or.inr (Or.inr h3)); rw [he] at hok; cases hok

end Solverz
