import SolverzModel.Core.Vars
namespace Solverz
theorem C16_placeholder : True := trivial
end Solverz
