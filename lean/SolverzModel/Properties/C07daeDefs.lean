/-
  Properties/C07daeDefs.lean (definitions and tree facts shared by the C07dae* files) — index-1 DAE order conditions of the Rodas tables as found in /repo now, decided by kernel
  evaluation over exact rationals (ε = 10⁻¹²) on the trees of Core/DaeTrees.lean.

  Scope (stated, not hidden): the conditions are decided for every tree the generator `DF.levels` produces
  (1, 2, 10, 56, 372 meagre-rooted and 1, 5, 28, 186, 1326 fat-rooted trees of orders 1 … 5; all of them admissible,
  `C07dae_trees_admissible`).  That the generator produces *every* admissible tree is not proved here (it is for the
  ODE trees of Properties/C07.lean); the theory that these conditions imply the convergence order is Roche's / Hairer–Wanner's.
-/
import SolverzModel.Core.DaeTrees
import SolverzModel.Generated.RodasTables
namespace Solverz
open Generated

def epsD : Rat := 1 / 1000000000000

/-- every listed tree satisfies |Σ w_j Φ_j(t) − 1/γ(t)| ≤ ε -/
def daeOK (S : Scheme Rat) (w : List Rat) (ts : List DF) : Bool := ts.all fun t => decide (S.daeResidual w t ≤ epsD)
/-- some listed tree violates the condition by at least 10⁻⁶ -/
def daeSharp (S : Scheme Rat) (w : List Rat) (ts : List DF) : Bool := ts.any fun t => decide (S.daeResidual w t ≥ 1 / 1000000)

def levelY (p : Nat) : List DF := ((DF.levels p).getD p ⟨[], [], []⟩).ys
def levelZ (p : Nat) : List DF := ((DF.levels p).getD p ⟨[], [], []⟩).zs

set_option maxRecDepth 100000

/-- one kernel evaluation of the generator (about six minutes, 22 GB): the generated trees are admissible, their numbers are those
of the theory, every tree has the order of its level, and no tree is generated twice (orders 1 … 4, and the meagre-rooted ones of
order 5; the 1326 fat-rooted trees of order 5 are not compared pairwise: the kernel runs out of its budget) -/
theorem C07dae_trees_sound :
    (DF.yTreesUpTo 5).all DF.admissible = true ∧ (DF.zTreesUpTo 5).all DF.admissible = true ∧
    (DF.levels 5).map (fun L => (L.ys.length, L.zs.length)) = [(0, 0), (1, 1), (2, 5), (10, 28), (56, 186), (372, 1326)] ∧
    DF.levelsOK (DF.levels 5) 0 = true ∧ DF.distinct (DF.yTreesUpTo 5) = true ∧ DF.distinct (DF.zTreesUpTo 4) = true := by
  decide +kernel

/-- the generated trees are admissible and their numbers are those of the theory -/
theorem C07dae_trees_admissible :
    (DF.yTreesUpTo 5).all DF.admissible = true ∧ (DF.zTreesUpTo 5).all DF.admissible = true ∧
    (DF.levels 5).map (fun L => (L.ys.length, L.zs.length)) = [(0, 0), (1, 1), (2, 5), (10, 28), (56, 186), (372, 1326)] :=
  ⟨C07dae_trees_sound.1, C07dae_trees_sound.2.1, C07dae_trees_sound.2.2.1⟩

/-- every generated tree has the order of its level, and no tree is generated twice -/
theorem C07dae_levels_sound :
    DF.levelsOK (DF.levels 5) 0 = true ∧ DF.distinct (DF.yTreesUpTo 5) = true ∧ DF.distinct (DF.zTreesUpTo 4) = true :=
  C07dae_trees_sound.2.2.2

/-- `eqb` decides equality (so `distinct` means what it says) -/
theorem DF.eqb_iff (a b : DF) : DF.eqb a b = true ↔ a = b := by
  induction a generalizing b with
  | nil => cases b <;> simp [DF.eqb]
  | cons f k r ihk ihr =>
    cases b with
    | nil => simp [DF.eqb]
    | cons f' k' r' => simp [DF.eqb, ihk, ihr, and_assoc]

/-- the ODE trees are among them: a forest without fat vertices gets the ODE elementary weight and density -/
example : (rodas4.phiForest ratFld (DF.tree false (DF.tree false .nil))).headD [] = rodas4.phi ratFld (.cons .nil .nil) := by decide +kernel


end Solverz
