/-
  Properties/C07dae.lean — index-1 DAE order conditions (thorough tier): umbrella of the per-scheme files, which lake builds
  in parallel.  See C07daeDefs.lean for scope.
-/
import SolverzModel.Properties.C07daeDefs
import SolverzModel.Properties.C07daeRodas4
import SolverzModel.Properties.C07daeRodasp
import SolverzModel.Properties.C07daeRodas5pY
import SolverzModel.Properties.C07daeRodas5pZ
