/-
  Properties/C15.lean — independence of declaration order (reference semantics) and equivariance of the
  linear algebra the solvers do (exact arithmetic).
  Names do not exist in the reference semantics at all (variables are positions), so renaming is invisible by
  construction; that the *code* does not depend on names is what the differential runs of the check test.
-/
import SolverzModel.Core.Lang
import Mathlib.LinearAlgebra.Matrix.NonsingularInverse
import Mathlib.Data.List.Perm.Basic
namespace Solverz
open Matrix

/-- the blocks of scalar expressions of the equations, in declaration order -/
def LModel.blocks {α} (m : LModel α) : Except Err (List (List (SEx α))) :=
  m.eqs.mapM fun (e, target) => LModel.eqBlock m.L e target

theorem LModel.residual_eq_flatten {α} (m : LModel α) : m.residual = m.blocks.map List.flatten := by
  simp only [LModel.residual, LModel.blocks]
  cases h : List.mapM (fun x : Ex α × Nat => LModel.eqBlock m.L x.1 x.2) m.eqs with
  | error e => simp [bind, Except.bind, Except.map, h]
  | ok v => simp [bind, Except.bind, Except.map, h, pure, Except.pure]

theorem mapM_perm {α β} (f : α → Except Err β) {l l' : List α} (hp : l.Perm l') (bs : List β) (h : l.mapM f = .ok bs) :
    ∃ bs', l'.mapM f = .ok bs' ∧ bs.Perm bs' := by
  induction hp generalizing bs with
  | nil => exact ⟨bs, h, List.Perm.refl _⟩
  | cons x _ ih =>
    rw [List.mapM_cons] at h
    cases hx : f x with
    | error e => simp [hx, bind, Except.bind] at h
    | ok y =>
      simp only [hx, bind, Except.bind] at h
      rename_i l1 l2 _
      cases hl : List.mapM f l1 with
      | error e => simp [hl] at h
      | ok ys =>
        simp only [hl, pure, Except.pure, Except.ok.injEq] at h
        subst h
        obtain ⟨ys', h1, h2⟩ := ih ys hl
        exact ⟨y :: ys', by rw [List.mapM_cons]; simp [hx, h1, bind, Except.bind, pure, Except.pure], h2.cons y⟩
  | swap x y l =>
    simp only [List.mapM_cons] at h ⊢
    cases hx : f x with
    | error e => simp [hx, bind, Except.bind] at h; cases hy : f y <;> simp [hy, hx, bind, Except.bind] at h
    | ok vx =>
      cases hy : f y with
      | error e => simp [hx, hy, bind, Except.bind] at h
      | ok vy =>
        cases hl : List.mapM f l with
        | error e => simp [hx, hy, hl, bind, Except.bind] at h
        | ok vs =>
          simp only [hx, hy, hl, bind, Except.bind, pure, Except.pure, Except.ok.injEq] at h ⊢
          subst h
          exact ⟨vx :: vy :: vs, rfl, List.Perm.swap vx vy vs⟩
  | trans _ _ ih1 ih2 =>
    obtain ⟨b1, h1, p1⟩ := ih1 bs h
    obtain ⟨b2, h2, p2⟩ := ih2 b1 h1
    exact ⟨b2, h2, p1.trans p2⟩

/-- **Equation order.**  Declaring the same equations in another order gives the same blocks of residual
elements, permuted accordingly: no block's content depends on where its equation was declared. -/
theorem C15_equation_order {α} (L : Layout) (es es' : List (Ex α × Nat)) (hp : es.Perm es')
    (bs : List (List (SEx α))) (h : (LModel.mk L es).blocks = .ok bs) :
    ∃ bs', (LModel.mk L es').blocks = .ok bs' ∧ bs.Perm bs' :=
  mapM_perm _ hp bs h

/-- **Linear solves are equivariant.**  For invertible `P`, `Q` (in particular permutation matrices):
solving with the transformed matrix `Q·A·P⁻¹` and right-hand side `Q·b` gives `P` times the original solution.
This is the Newton correction, the backward-Euler / trapezoidal step and every Rosenbrock stage
(`A = M − h·γ·J`) written for a reordered model. -/
theorem C15_solve_equivariant {n : Type} [Fintype n] [DecidableEq n] (A P Q : Matrix n n ℚ) (b : n → ℚ)
    (hA : IsUnit A.det) (hP : IsUnit P.det) (hQ : IsUnit Q.det) :
    (Q * A * P⁻¹)⁻¹ *ᵥ (Q *ᵥ b) = P *ᵥ (A⁻¹ *ᵥ b) := by
  have hPi : IsUnit (P⁻¹).det := by
    rw [Matrix.det_nonsing_inv]; exact (Ring.inverse_unit hP.unit ▸ (hP.unit⁻¹).isUnit : IsUnit (Ring.inverse P.det))
  rw [Matrix.mul_inv_rev, Matrix.mul_inv_rev, Matrix.nonsing_inv_nonsing_inv P hP]
  rw [Matrix.mulVec_mulVec, Matrix.mulVec_mulVec]
  congr 1
  rw [Matrix.mul_assoc, Matrix.mul_assoc, Matrix.nonsing_inv_mul Q hQ, Matrix.mul_one]

/-- **Newton step.**  With `F' = Q·F`, `J' = Q·J·P⁻¹` and `y' = P·y`, the Newton update of the reordered system
is `P` times the Newton update of the original one. -/
theorem C15_newton_equivariant {n : Type} [Fintype n] [DecidableEq n] (J P Q : Matrix n n ℚ) (y Fv : n → ℚ)
    (hJ : IsUnit J.det) (hP : IsUnit P.det) (hQ : IsUnit Q.det) :
    P *ᵥ y - (Q * J * P⁻¹)⁻¹ *ᵥ (Q *ᵥ Fv) = P *ᵥ (y - J⁻¹ *ᵥ Fv) := by
  rw [C15_solve_equivariant J P Q Fv hJ hP hQ, Matrix.mulVec_sub]

/-- the error norm the adaptive controllers use is a maximum over components: invariant under reordering -/
theorem C15_max_invariant (l l' : List ℚ) (hp : l.Perm l') : l.foldl max 0 = l'.foldl max 0 := by
  induction hp with
  | nil => rfl
  | cons x _ ih =>
    simp only [List.foldl_cons]
    rename_i l1 l2 hp12
    have key : ∀ (a : ℚ) (u v : List ℚ), u.Perm v → u.foldl max a = v.foldl max a := by
      intro a u v huv
      induction huv generalizing a with
      | nil => rfl
      | cons z _ ihz => simp only [List.foldl_cons]; exact ihz _
      | swap z w t => simp only [List.foldl_cons]; rw [max_assoc, max_comm w z, ← max_assoc]
      | trans _ _ i1 i2 => exact (i1 a).trans (i2 a)
    exact key _ _ _ hp12
  | swap x y l => simp only [List.foldl_cons]; rw [max_assoc, max_comm y x, ← max_assoc]
  | trans _ _ ih1 ih2 => exact ih1.trans ih2

end Solverz
