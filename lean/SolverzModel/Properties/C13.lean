/-
  Properties/C13.lean — evaluating a numerical model is pure.
  `Generated/Progs.lean` holds the IR of the code generated *now* by /repo for the model zoo
  (inline sparse / dense, rendered module, F / J / Hvp), rewritten on every run.
-/
import SolverzModel.Core.IR
import SolverzModel.Proofs.IR
import SolverzModel.Generated.Progs
namespace Solverz

/-- **Soundness of the analysis.**  If `pureOK` accepts a program, then on *every* initial heap
(any number of pre-existing objects `≥ nargs`, any contents) the call leaves every argument object
with its initial version — state vector, parameter arrays, direction vector, previous-step vector
and every protected module object are not written — and the returned object was allocated during
the call: no earlier or later call can hold or change it. -/
theorem C13_analysis_sound (nargs : Nat) (p : List Stmt) (hok : pureOK [] [] p = true)
    (h0 : List Nat) (hn : nargs ≤ h0.length) :
    let s := runProg nargs { heap := h0, env := [], result := none } p
    (∀ i, i < nargs → s.heap[i]? = h0[i]?) ∧ (∀ o, s.result = some o → h0.length ≤ o) := by
  have hinv : Inv nargs h0.length h0 [] [] { heap := h0, env := [], result := none } :=
    ⟨Nat.le_refl _, fun _ _ => rfl, fun x hx => (by cases hx), fun x hx => (by cases hx), fun o ho => (by cases ho)⟩
  obtain ⟨ws', fs', hi⟩ := prog_inv nargs h0.length hn h0 p [] [] _ hinv hok
  exact ⟨hi.pre, hi.res⟩

/-- **Instances.**  Every function generated for the model zoo by the current /repo is accepted. -/
theorem C13_instances : Generated.progs.all (fun p => pureOK [] [] p.2.2) = true := by decide

/-- the zoo is not empty and every program returns something -/
theorem C13_instances_nonempty :
    Generated.progs.length ≥ 16 ∧ Generated.progs.all (fun p => p.2.2.any (fun st => match st with | .ret _ => true | _ => false)) = true := by
  decide

/-- what a rejected program looks like: returning the module's own buffer (the defect fixed in /repo) -/
example : pureOK [] [] [.arg "y_" 0, .glob "_F_" 0, .store "_F_", .ret "_F_"] = false := by decide
/-- … and storing into a view of the state vector -/
example : pureOK [] [] [.arg "y_" 0, .view "x" "y_", .store "x", .fresh "r", .ret "r"] = false := by decide

end Solverz
