/-
  Properties/C14.lean — solvers are functions of their arguments.
  `Generated/Effects.lean` is rewritten from /repo's solver sources on every run.
-/
import SolverzModel.Core.Effects
import SolverzModel.Generated.Effects
namespace Solverz

/-- **Frame theorem.**  If a call never changes the shared state, then in *every* history of calls
sharing that state each result is the result of a fresh call, and the caller's objects are unchanged
at the end. -/
theorem C14_frame {σ In Out} (call : Call σ In Out) (hframe : ∀ s i, (call s i).2 = s) (s : σ) (ins : List In) :
    runHistory call s ins = (ins.map (fun i => (call s i).1), s) := by
  induction ins with
  | nil => rfl
  | cons i is ih =>
    simp only [runHistory, List.map_cons]
    have h := hframe s i
    cases hc : call s i with
    | mk o s' =>
      rw [hc] at h
      simp only at h
      subst h
      simp only [ih]

/-- the result of the k-th call does not depend on what was called before it -/
theorem C14_history_independent {σ In Out} (call : Call σ In Out) (hframe : ∀ s i, (call s i).2 = s) (s : σ)
    (before : List In) (i : In) :
    (runHistory call s (before ++ [i])).1.getLast? = some (call s i).1 := by
  rw [C14_frame call hframe]
  simp

/-- **Instances.**  For the solver sources now in /repo the translator finds no store to a caller's
object and no module-level state in any of the nine solvers or their helpers. -/
theorem C14_instances : (Generated.solverEffects ++ Generated.helperEffects).all Effects.isPure = true := by decide

theorem C14_all_solvers_listed : Generated.solverEffects.map (·.name) =
    ["Rodas", "ode15s", "sicnm", "nr_method", "continuous_nr", "lm", "backward_euler", "implicit_trapezoid", "fdae_solver"] := by decide

/-- the converse shape: a call that stores what it later reads makes the second result depend on the
first call — the witness a violated frame produces (here: a counter) -/
example : (runHistory (fun (s : Nat) (_ : Unit) => (s, s + 1)) 0 [(), ()]).1 = [0, 1] := by decide

end Solverz
