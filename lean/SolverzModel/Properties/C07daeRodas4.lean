import SolverzModel.Properties.C07daeDefs
namespace Solverz
open Generated
set_option maxRecDepth 100000

/-! ### rodas4: differential and algebraic components of order 4, embedded solution of order 3 -/
theorem C07dae_rodas4_y : daeOK rodas4 rodas4.b (DF.yTreesUpTo 4) = true := by decide +kernel
theorem C07dae_rodas4_z : daeOK rodas4 rodas4.b (DF.zTreesUpTo 4) = true := by decide +kernel
theorem C07dae_rodas4_embedded : daeOK rodas4 rodas4.bd (DF.yTreesUpTo 3) = true ∧ daeOK rodas4 rodas4.bd (DF.zTreesUpTo 3) = true := by
  decide +kernel


end Solverz
