import SolverzModel.Properties.C07daeDefs
namespace Solverz
open Generated
set_option maxRecDepth 100000

theorem C07dae_rodas5p_z : daeOK rodas5p rodas5p.b (DF.zTreesUpTo 4) = true := by decide +kernel
theorem C07dae_rodas5p_z_sharp : daeSharp rodas5p rodas5p.b (levelZ 5) = true := by decide +kernel
theorem C07dae_rodas5p_embedded : daeOK rodas5p rodas5p.bd (DF.yTreesUpTo 4) = true ∧ daeOK rodas5p rodas5p.bd (DF.zTreesUpTo 3) = true := by
  decide +kernel


end Solverz
