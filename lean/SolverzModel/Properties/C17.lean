/-
  Properties/C17.lean — the piecewise library functions mean what the documentation says.
  The symbolic side (rewrites of Min / AntiWindUp, derivative rules) is read from the running
  functions.py by the translator (Generated/FnRules.lean).
-/
import SolverzModel.Core.Lang
import SolverzModel.Proofs.Diff
import SolverzModel.Generated.FnRules
import Mathlib.Tactic.Linarith
namespace Solverz
open SEx

/-! ### values: implementation (as rewritten / as evaluated) = documented piecewise definition -/

/-- `Abs`, `Sign`, `heaviside`: |x|;  1 / 0 / −1;  1 for x ≥ 0 and 0 for x < 0 (thresholds included) -/
theorem C17_value_Abs_Sign_heaviside (ρ : Env ℝ) (a : SEx ℝ) :
    eval realF ρ (.fn1 .abs a) = |eval realF ρ a| ∧
    eval realF ρ (.fn1 .sign a) = (if eval realF ρ a > 0 then 1 else if eval realF ρ a = 0 then 0 else -1) ∧
    eval realF ρ (.fn1 .heav a) = (if 0 ≤ eval realF ρ a then 1 else 0) := by
  simp only [eval, evalFn1, rf_lt, rf_zero, rf_neg, rf_one]
  refine ⟨?_, ?_, ?_⟩
  · by_cases h : eval realF ρ a < 0
    · simp [h, abs_of_neg h]
    · simp [h, abs_of_nonneg (not_lt.mp h)]
  · by_cases h : eval realF ρ a < 0
    · have h1 : ¬ eval realF ρ a > 0 := by linarith
      have h2 : eval realF ρ a ≠ 0 := by linarith
      simp [h, h1, h2]
    · by_cases h' : 0 < eval realF ρ a
      · simp [h, h']
      · have : eval realF ρ a = 0 := le_antisymm (not_lt.mp h') (not_lt.mp h)
        simp [this]
  · by_cases h : eval realF ρ a < 0
    · simp [h, not_le.mpr h]
    · simp [h, not_lt.mp h]

/-- `Saturation(v, lo, hi)` with `lo ≤ hi`: hi above, lo below, v in between (limits included) -/
theorem C17_value_Saturation (ρ : Env ℝ) (v lo hi : SEx ℝ) (hle : eval realF ρ lo ≤ eval realF ρ hi) :
    eval realF ρ (.sat v lo hi) =
      (if eval realF ρ v > eval realF ρ hi then eval realF ρ hi
       else if eval realF ρ v < eval realF ρ lo then eval realF ρ lo else eval realF ρ v) := by
  simp only [eval, rf_lt]
  by_cases h1 : eval realF ρ v < eval realF ρ lo
  · have h2 : ¬ eval realF ρ v > eval realF ρ hi := by linarith
    have h3 : ¬ eval realF ρ hi < eval realF ρ lo := by linarith
    simp [h1, h2, h3]
  · by_cases h2 : eval realF ρ hi < eval realF ρ v
    · simp [h1, h2]
    · simp [h1, h2]

/-- "the lowered expression exists and satisfies `P`" -/
def lowersTo (r : Except Err (SEx ℝ)) (P : SEx ℝ → Prop) : Prop :=
  match r with
  | .ok e => P e
  | .error _ => False

/-- what `Min(x, y)` is rewritten to evaluates to the documented minimum (x for x ≤ y, y for x > y) -/
theorem C17_value_Min (L : Layout) (i : ℕ) (a b : Ex ℝ) (xa xb : SEx ℝ)
    (ha : a.lower L i = .ok xa) (hb : b.lower L i = .ok xb) :
    lowersTo ((Generated.minRule realF a b).lower L i) fun e =>
      ∀ ρ, eval realF ρ e = (if eval realF ρ xa ≤ eval realF ρ xb then eval realF ρ xa else eval realF ρ xb) := by
  simp only [Generated.minRule, Ex.lower, ha, hb, bind, Except.bind, lowersTo]
  intro ρ
  simp only [eval, evalFn1, b2a, rf_lt, rf_add, rf_sub, rf_mul, rf_ofInt, rf_one, rf_zero]   -- covers (1 − [x<y]) and Not([x<y])
  by_cases h : eval realF ρ xa < eval realF ρ xb
  · simp [h, le_of_lt h]
  · by_cases h' : eval realF ρ xa = eval realF ρ xb
    · simp [h']
    · have : ¬ eval realF ρ xa ≤ eval realF ρ xb := fun hle => h (lt_of_le_of_ne hle h')
      simp [h, this]

/-- what `AntiWindUp(u, umin, umax, e)` is rewritten to evaluates to the documented function:
0 when (u ≥ umax and e ≥ 0) or (u ≤ umin and e ≤ 0), e otherwise — on the limits as well -/
theorem C17_value_AntiWindUp (L : Layout) (i : ℕ) (u lo hi e : Ex ℝ) (xu xlo xhi xe : SEx ℝ)
    (hu : u.lower L i = .ok xu) (hl : lo.lower L i = .ok xlo) (hh : hi.lower L i = .ok xhi) (he : e.lower L i = .ok xe) :
    lowersTo ((Generated.awuRule realF u lo hi e).lower L i) fun r =>
      ∀ ρ, eval realF ρ r =
        (if (eval realF ρ xhi ≤ eval realF ρ xu ∧ 0 ≤ eval realF ρ xe) ∨ (eval realF ρ xu ≤ eval realF ρ xlo ∧ eval realF ρ xe ≤ 0)
         then 0 else eval realF ρ xe) := by
  simp only [Generated.awuRule, Ex.lower, hu, hl, hh, he, bind, Except.bind, lowersTo]
  intro ρ
  simp only [eval, evalFn1, b2a, rf_lt, rf_add, rf_sub, rf_mul, rf_ofInt, rf_one, rf_zero]
  generalize eval realF ρ xu = U
  generalize eval realF ρ xlo = LO
  generalize eval realF ρ xhi = HI
  generalize eval realF ρ xe = E
  rcases lt_trichotomy E 0 with hneg | hzero | hpos
  · have n3 : ¬ (0:ℝ) < E := by linarith
    by_cases p2 : LO < U
    · have c : ¬ ((HI ≤ U ∧ 0 ≤ E) ∨ (U ≤ LO ∧ E ≤ 0)) := by
        rintro (⟨_, h2⟩ | ⟨h1, _⟩) <;> linarith
      simp [hneg, n3, p2, c]
    · have c : (HI ≤ U ∧ 0 ≤ E) ∨ (U ≤ LO ∧ E ≤ 0) := Or.inr ⟨not_lt.mp p2, le_of_lt hneg⟩
      simp [hneg, n3, p2, c]
  · subst hzero
    simp
  · have n4 : ¬ E < 0 := by linarith
    by_cases p1 : U < HI
    · have c : ¬ ((HI ≤ U ∧ 0 ≤ E) ∨ (U ≤ LO ∧ E ≤ 0)) := by
        rintro (⟨h1, _⟩ | ⟨_, h2⟩) <;> linarith
      simp [hpos, n4, p1, c]
    · have c : (HI ≤ U ∧ 0 ≤ E) ∨ (U ≤ LO ∧ E ≤ 0) := Or.inl ⟨not_lt.mp p1, le_of_lt hpos⟩
      simp [hpos, n4, p1, c]

/-! ### derivatives: the code's rules give the derivative of the documented function on every open piece -/

/-- the derivative of `Saturation` with respect to *each* argument, on each open piece (`lo < hi`, `v` not on a limit) -/
theorem C17_deriv_Saturation (c : ℕ) (ρ : Env ℝ) (v lo hi : SEx ℝ) (h : KinkFree ρ (.sat v lo hi)) :
    HasDerivAt (fun x => eval realF (ρ.setY c x) (.sat v lo hi))
      (eval realF ρ (Generated.fdiff_Saturation_1 realF v lo hi) * eval realF ρ (SEx.diff realF c v) +
       eval realF ρ (Generated.fdiff_Saturation_2 realF v lo hi) * eval realF ρ (SEx.diff realF c lo) +
       eval realF ρ (Generated.fdiff_Saturation_3 realF v lo hi) * eval realF ρ (SEx.diff realF c hi)) (ρ.y c) :=
  diff_correct (.sat v lo hi) c ρ h

theorem C17_deriv_Abs (c : ℕ) (ρ : Env ℝ) (a : SEx ℝ) (h : KinkFree ρ (.fn1 .abs a)) :
    HasDerivAt (fun x => eval realF (ρ.setY c x) (.fn1 .abs a))
      (eval realF ρ (Generated.fdiff_Abs_1 realF a) * eval realF ρ (SEx.diff realF c a)) (ρ.y c) :=
  diff_correct (.fn1 .abs a) c ρ h

/-- `Sign`, `heaviside` are locally constant away from 0 -/
theorem C17_deriv_Sign_heaviside (c : ℕ) (ρ : Env ℝ) (a : SEx ℝ) (h : KinkFree ρ a ∧ eval realF ρ a ≠ 0) :
    HasDerivAt (fun x => eval realF (ρ.setY c x) (.fn1 .sign a)) 0 (ρ.y c) ∧
    HasDerivAt (fun x => eval realF (ρ.setY c x) (.fn1 .heav a)) 0 (ρ.y c) :=
  ⟨by simpa [SEx.diff, eval] using diff_correct (.fn1 .sign a) c ρ h,
   by simpa [SEx.diff, eval] using diff_correct (.fn1 .heav a) c ρ h⟩

/-- the identities of IEEE-754 arithmetic that are *exact* on finite numbers: multiplying by the masks 1 and 0, adding 0, and the
complement of a mask.  Nothing about associativity, distributivity or cancellation is assumed: those hold only up to rounding. -/
structure ExactUnits {α : Type} (F : TFld α) : Prop where
  one_mul : ∀ a, F.mul F.one a = a
  mul_one : ∀ a, F.mul a F.one = a
  zero_mul : ∀ a, F.mul F.zero a = F.zero
  mul_zero : ∀ a, F.mul a F.zero = F.zero
  add_zero : ∀ a, F.add a F.zero = a
  zero_add : ∀ a, F.add F.zero a = a
  one_sub_one : F.sub F.one F.one = F.zero
  one_sub_zero : F.sub F.one F.zero = F.one

/-- "the lowered expression exists and satisfies `P`", for any number type -/
def lowersToG {α : Type} (r : Except Err (SEx α)) (P : SEx α → Prop) : Prop :=
  match r with
  | .ok e => P e
  | .error _ => False

set_option linter.unusedSimpArgs false in
/-- what `Min(x, y)` is rewritten to now returns the selected argument *exactly* in every arithmetic with exact units — in
particular in floating point on finite values, whatever the magnitudes of the two arguments (D24: the form `x·m − y·m + y` that sympy
produced for a numeric `y` needs cancellation, which floating point does not have) -/
theorem C17_value_Min_exact {α : Type} (F : TFld α) (hF : ExactUnits F) (L : Layout) (i : ℕ) (a b : Ex α) (xa xb : SEx α)
    (ha : a.lower L i = .ok xa) (hb : b.lower L i = .ok xb) :
    lowersToG ((Generated.minRule F a b).lower L i) fun e =>
      ∀ ρ, eval F ρ e = (haveI := F.decLt (eval F ρ xa) (eval F ρ xb); if F.lt (eval F ρ xa) (eval F ρ xb) then eval F ρ xa else eval F ρ xb) := by
  simp only [Generated.minRule, Ex.lower, ha, hb, bind, Except.bind, lowersToG]
  intro ρ
  simp only [eval, evalFn1, b2a]
  by_cases h : F.lt (eval F ρ xa) (eval F ρ xb)
  · simp [h, hF.one_mul, hF.mul_one, hF.zero_mul, hF.mul_zero, hF.add_zero, hF.zero_add, hF.one_sub_one, hF.one_sub_zero]
  · simp [h, hF.one_mul, hF.mul_one, hF.zero_mul, hF.mul_zero, hF.add_zero, hF.zero_add, hF.one_sub_one, hF.one_sub_zero]

/-- the hypothesis is satisfiable: real arithmetic has exact units -/
example : ExactUnits realF := by
  constructor <;> intros <;> simp [realF]

/-- tests in IEEE double precision (kernel evaluation of `Float`): with the masks m = 1, 1 − m = 0 the rule read now returns 3 for
Min(3, 10¹⁸), the distributed form `3·m − 10¹⁸·m + 10¹⁸` returns 0 -/
example : ((Float.ofNat 3) * (Float.ofNat 1) + (Float.ofNat 1000000000000000000) * (Float.ofNat 1 - Float.ofNat 1)).toUInt64 = 3 ∧
    ((Float.ofNat 3) * (Float.ofNat 1) - (Float.ofNat 1000000000000000000) * (Float.ofNat 1) + (Float.ofNat 1000000000000000000)).toUInt64 = 0 := by
  decide +kernel

end Solverz
