/-
  Properties/C12.lean — time grid of the fixed-step integrators, over exact rationals
  (`backward_euler`, `implicit_trapezoid`; the Float behaviour is tied by the correspondence runs).
-/
import SolverzModel.Core.Ctl.FixedStep
import SolverzModel.Core.Ctl.Newton
import SolverzModel.Proofs.FixedStep
import SolverzModel.Proofs.Newton
namespace Solverz

/-- **Grid, step count, buffer.**  For every `t0 ≤ tend` and every step `dt > 0` the integrator
never fails on its buffer bound and returns the grid `t0, t0+dt, …, t0+n·dt`, where `n` is the first
index at which the remaining interval is at most `dt/10`; and `n ≤ ⌊(tend−t0)/dt⌋ + 1`. -/
theorem C12_fixed_grid (t0 tend dt : ℚ) (hdt : 0 < dt) (hspan : t0 ≤ tend) :
    ∃ n : ℕ, fixedGrid ratO t0 tend dt = .ok (t0 :: (List.range n).map (fun (k : ℕ) => t0 + ((k : ℚ) + 1) * dt))
      ∧ (∀ k, k < n → dt / 10 < tend - (t0 + (k : ℚ) * dt))
      ∧ tend - (t0 + (n : ℚ) * dt) ≤ dt / 10
      ∧ (n : ℤ) ≤ ⌊(tend - t0) / dt⌋ + 1 := by
  have hq0 : 0 ≤ (tend - t0) / dt := div_nonneg (by linarith) hdt.le
  have hf0 : 0 ≤ ⌊(tend - t0) / dt⌋ := Int.floor_nonneg.mpr hq0
  have hNt : ratO.trunc (ratO.div (ratO.sub tend t0) dt) = ⌊(tend - t0) / dt⌋.toNat := by
    simp only [ratO, ratFld]; rfl
  obtain ⟨n, hn, hl, hg, hex⟩ := gridLoop_spec tend dt hdt (⌊(tend - t0) / dt⌋.toNat + 100) t0
  have hb := steps_le_floor t0 tend dt hdt hspan n hg
  have hnat : n ≤ ⌊(tend - t0) / dt⌋.toNat + 1 := by omega
  refine ⟨n, ?_, hg, ?_, hb⟩
  · unfold fixedGrid
    simp only [hNt, hl, List.length_map, List.length_range]
    rw [if_neg (by omega)]
  · have := hex (by omega)
    exact not_lt.mp this

/-- the grid starts at `t0`, has `n + 1` points, consecutive points differ by exactly `dt` -/
theorem C12_grid_shape (t0 dt : ℚ) (n : ℕ) :
    let T := t0 :: (List.range n).map (fun (k : ℕ) => t0 + ((k : ℚ) + 1) * dt)
    T.head? = some t0 ∧ T.length = n + 1 ∧ ∀ k, k ≤ n → T[k]? = some (t0 + (k : ℚ) * dt) := by
  refine ⟨rfl, by simp, ?_⟩
  intro k hk
  cases k with
  | zero => simp
  | succ k =>
    have : k < n := by omega
    simp [List.getElem?_map, List.getElem?_range this]

/-- **Reaches tend.**  The last grid point lies in `[tend − dt/10, tend + 9·dt/10)`; when the step
divides the span (`tend − t0 = m·dt`) the grid has exactly `m` steps and ends exactly at `tend`. -/
theorem C12_reaches_tend (t0 tend dt : ℚ) (hdt : 0 < dt) (n : ℕ)
    (hg : ∀ k, k < n → dt / 10 < tend - (t0 + (k : ℚ) * dt))
    (hex : tend - (t0 + (n : ℚ) * dt) ≤ dt / 10) :
    tend - dt / 10 ≤ t0 + (n : ℚ) * dt ∧ (0 < n → t0 + (n : ℚ) * dt < tend + 9 * dt / 10) ∧
    (∀ m : ℕ, tend - t0 = (m : ℚ) * dt → n = m ∧ t0 + (n : ℚ) * dt = tend) := by
  refine ⟨by linarith, ?_, ?_⟩
  · intro hn
    have := hg (n - 1) (by omega)
    have e : ((n - 1 : ℕ) : ℚ) = (n : ℚ) - 1 := by
      rw [Nat.cast_sub (by omega)]; simp
    rw [e] at this
    linarith
  · intro m hm
    have h1 : n ≤ m := by
      by_contra hc
      have hlt : m < n := by omega
      have := hg m hlt
      have : tend - (t0 + (m : ℚ) * dt) = 0 := by linarith
      linarith
    have h2 : m ≤ n := by
      by_contra hc
      have hlt : n < m := by omega
      have hc2 : (n : ℚ) + 1 ≤ (m : ℚ) := by exact_mod_cast hlt
      have : tend - (t0 + (n : ℚ) * dt) = ((m : ℚ) - (n : ℚ)) * dt := by linarith [hm]
      have h3 : dt ≤ ((m : ℚ) - (n : ℚ)) * dt := by nlinarith
      linarith
    have : n = m := by omega
    subst this
    exact ⟨rfl, by linarith⟩

/-- **Step equation.**  The step is accepted from `nr_method` applied to the step residual; whenever
that Newton run reports success the returned state satisfies the discrete equation below the
tolerance (the integrators themselves do not consult the flag — recorded as partial). -/
theorem C12_step_equation_partial {S α} (O : Ord α) (stepRes : S → Option α) (newton : S → S) (tol : α)
    (maxIt : Nat) (y0 : S) (h : (nr O stepRes newton tol maxIt y0).2.succeed = true) :
    ltTol O (stepRes (nr O stepRes newton tol maxIt y0).1) tol = true := by
  rw [← h]
  simp only [nr]
  have := nrLoop_df_eq O stepRes newton tol maxIt (maxIt + 2) ⟨y0, stepRes y0, { nfeval := 1 }⟩ rfl
  rw [this]

/-- non-vacuity: [0, 1] with step 3/10 → grid 0, 0.3, 0.6, 0.9, 1.2 (overshoot < one step) -/
example : fixedGrid ratO 0 1 (3/10) = .ok [0, 3/10, 6/10, 9/10, 12/10] := by decide +kernel

end Solverz
