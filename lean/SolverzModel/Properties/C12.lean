/-
  Properties/C12.lean — time grid of the fixed-step integrators, over exact rationals
  (`backward_euler`, `implicit_trapezoid`; the Float behaviour is tied by the correspondence runs).
-/
import SolverzModel.Core.Ctl.FixedStep
import SolverzModel.Core.Ctl.Newton
import SolverzModel.Proofs.FixedStep
import SolverzModel.Proofs.Newton
import SolverzModel.Proofs.FdaeGrid
namespace Solverz

/-- **Grid, step count, buffer.**  For every `t0 ≤ tend` and every step `dt > 0` the integrator
never fails on its buffer bound and returns the grid `t0, t0+dt, …, t0+n·dt`, where `n` is the first
index at which the remaining interval is at most `dt/10`; and `n ≤ ⌊(tend−t0)/dt⌋ + 1`. -/
theorem C12_fixed_grid (t0 tend dt : ℚ) (hdt : 0 < dt) (hspan : t0 ≤ tend) :
    ∃ n : ℕ, fixedGrid ratO t0 tend dt = .ok (t0 :: (List.range n).map (fun (k : ℕ) => t0 + ((k : ℚ) + 1) * dt))
      ∧ (∀ k, k < n → dt / 10 < tend - (t0 + (k : ℚ) * dt))
      ∧ tend - (t0 + (n : ℚ) * dt) ≤ dt / 10
      ∧ (n : ℤ) ≤ ⌊(tend - t0) / dt⌋ + 1 := by
  have hq0 : 0 ≤ (tend - t0) / dt := div_nonneg (by linarith) hdt.le
  have hf0 : 0 ≤ ⌊(tend - t0) / dt⌋ := Int.floor_nonneg.mpr hq0
  have hNt : ratO.trunc (ratO.div (ratO.sub tend t0) dt) = ⌊(tend - t0) / dt⌋.toNat := by
    simp only [ratO, ratFld]; rfl
  obtain ⟨n, hn, hl, hg, hex⟩ := gridLoop_spec tend dt hdt (⌊(tend - t0) / dt⌋.toNat + 100) t0
  have hb := steps_le_floor t0 tend dt hdt hspan n hg
  have hnat : n ≤ ⌊(tend - t0) / dt⌋.toNat + 1 := by omega
  refine ⟨n, ?_, hg, ?_, hb⟩
  · unfold fixedGrid
    simp only [hNt, hl, List.length_map, List.length_range]
    rw [if_neg (by omega)]
  · have := hex (by omega)
    exact not_lt.mp this

/-- the grid starts at `t0`, has `n + 1` points, consecutive points differ by exactly `dt` -/
theorem C12_grid_shape (t0 dt : ℚ) (n : ℕ) :
    let T := t0 :: (List.range n).map (fun (k : ℕ) => t0 + ((k : ℚ) + 1) * dt)
    T.head? = some t0 ∧ T.length = n + 1 ∧ ∀ k, k ≤ n → T[k]? = some (t0 + (k : ℚ) * dt) := by
  refine ⟨rfl, by simp, ?_⟩
  intro k hk
  cases k with
  | zero => simp
  | succ k =>
    have : k < n := by omega
    simp [List.getElem?_map, List.getElem?_range this]

/-- **Reaches tend.**  The last grid point lies in `[tend − dt/10, tend + 9·dt/10)`; when the step
divides the span (`tend − t0 = m·dt`) the grid has exactly `m` steps and ends exactly at `tend`. -/
theorem C12_reaches_tend (t0 tend dt : ℚ) (hdt : 0 < dt) (n : ℕ)
    (hg : ∀ k, k < n → dt / 10 < tend - (t0 + (k : ℚ) * dt))
    (hex : tend - (t0 + (n : ℚ) * dt) ≤ dt / 10) :
    tend - dt / 10 ≤ t0 + (n : ℚ) * dt ∧ (0 < n → t0 + (n : ℚ) * dt < tend + 9 * dt / 10) ∧
    (∀ m : ℕ, tend - t0 = (m : ℚ) * dt → n = m ∧ t0 + (n : ℚ) * dt = tend) := by
  refine ⟨by linarith, ?_, ?_⟩
  · intro hn
    have := hg (n - 1) (by omega)
    have e : ((n - 1 : ℕ) : ℚ) = (n : ℚ) - 1 := by
      rw [Nat.cast_sub (by omega)]; simp
    rw [e] at this
    linarith
  · intro m hm
    have h1 : n ≤ m := by
      by_contra hc
      have hlt : m < n := by omega
      have := hg m hlt
      have : tend - (t0 + (m : ℚ) * dt) = 0 := by linarith
      linarith
    have h2 : m ≤ n := by
      by_contra hc
      have hlt : n < m := by omega
      have hc2 : (n : ℚ) + 1 ≤ (m : ℚ) := by exact_mod_cast hlt
      have : tend - (t0 + (n : ℚ) * dt) = ((m : ℚ) - (n : ℚ)) * dt := by linarith [hm]
      have h3 : dt ≤ ((m : ℚ) - (n : ℚ)) * dt := by nlinarith
      linarith
    have : n = m := by omega
    subst this
    exact ⟨rfl, by linarith⟩

/-- **Step equation.**  The step is accepted from `nr_method` applied to the step residual; whenever
that Newton run reports success the returned state satisfies the discrete equation below the
tolerance (the integrators themselves do not consult the flag — recorded as partial). -/
theorem C12_step_equation_partial {S α} (O : Ord α) (stepRes : S → Option α) (newton : S → S) (tol : α)
    (maxIt : Nat) (y0 : S) (h : (nr O stepRes newton tol maxIt y0).2.succeed = true) :
    ltTol O (stepRes (nr O stepRes newton tol maxIt y0).1) tol = true := by
  rw [← h]
  simp only [nr]
  have := nrLoop_df_eq O stepRes newton tol maxIt (maxIt + 2) ⟨y0, stepRes y0, { nfeval := 1 }⟩ rfl
  rw [this]

/-- **fdae_solver grid.**  For every `t0 < tend`, step `dt > 0` and end-test slack `≥ 1` the solver never fails on its
buffer bound; the returned times start at `t0`, increase strictly, stay in `(t0, tend]`, every time but the last is
`t0 + (j+1)·dt` exactly (the step is never changed), and the last one is `tend` itself or lies within `uround` below it. -/
theorem C12_fdae_grid (t0 tend dt uround slack : ℚ) (hdt : 0 < dt) (hs : 1 ≤ slack) (hspan : t0 < tend) :
    ∃ L : List ℚ, fdaeGrid ratO t0 tend dt uround slack = .ok (t0 :: L) ∧
      (∀ x ∈ L, t0 < x ∧ x ≤ tend) ∧ L.Pairwise (· < ·) ∧
      (∀ j, j + 1 < L.length → L[j]? = some (t0 + ((j : ℚ) + 1) * dt)) ∧
      (∃ last, L.getLast? = some last ∧ (last = tend ∨ (0 ≤ tend - last ∧ tend - last < uround))) := by
  have hq0 : 0 ≤ (tend - t0) / dt := div_nonneg (by linarith) hdt.le
  have hle0 : (tend - t0) / dt ≤ (((tend - t0) / dt).ceil : ℚ) := Rat.le_ceil
  have hc0 : 0 ≤ ((tend - t0) / dt).ceil := by
    have : (0 : ℚ) ≤ (((tend - t0) / dt).ceil : ℚ) := le_trans hq0 hle0
    exact_mod_cast this
  have hceil : ratO.ceil (ratO.div (ratO.sub tend t0) dt) = ((tend - t0) / dt).ceil.toNat := rfl
  obtain ⟨c, hc⟩ : ∃ c : ℕ, c = ((tend - t0) / dt).ceil.toNat := ⟨_, rfl⟩
  obtain ⟨nstep, hn⟩ : ∃ n : ℕ, n = max (c + 1000) 10000 := ⟨_, rfl⟩
  have hn1 : c + 1000 ≤ nstep := by rw [hn]; exact le_max_left _ _
  have hn2 : 10000 ≤ nstep := by rw [hn]; exact le_max_right _ _
  obtain ⟨s1, s2, s3, s4⟩ := fdaeLoop_spec tend uround slack dt hdt hs nstep t0 hspan
  obtain ⟨L, hL⟩ : ∃ L, L = fdaeLoop ratO tend uround slack nstep t0 dt := ⟨_, rfl⟩
  rw [← hL] at s1 s2 s3 s4
  -- enough iterations
  have hle : (tend - t0) / dt ≤ (c : ℚ) := by
    have h2 : ((c : ℤ) : ℚ) = (((tend - t0) / dt).ceil : ℚ) := by rw [hc, Int.toNat_of_nonneg hc0]
    have h3 : ((c : ℤ) : ℚ) = (c : ℚ) := by norm_cast
    linarith
  have hfuel : tend - t0 < (nstep : ℚ) * dt := by
    have hge : (c : ℚ) + 1000 ≤ (nstep : ℚ) := by exact_mod_cast hn1
    have : tend - t0 ≤ (c : ℚ) * dt := by
      have := (div_le_iff₀ hdt).mp hle
      linarith
    have h1 : ((c : ℚ) + 1000) * dt ≤ (nstep : ℚ) * dt := mul_le_mul_of_nonneg_right hge hdt.le
    have h2 : ((c : ℚ) + 1000) * dt = (c : ℚ) * dt + 1000 * dt := by ring
    linarith
  -- the buffer is large enough
  have hlen : L.length + 1 ≤ nstep := by
    by_cases h2 : L.length < 2
    · omega
    · have hj : (L.length - 2) + 1 < L.length := by omega
      have e := s3 (L.length - 2) hj
      have hmem : t0 + (((L.length - 2 : ℕ) : ℚ) + 1) * dt ∈ L := List.mem_of_getElem? e
      have hb := (s1 _ hmem).2
      have hq : ((L.length - 2 : ℕ) : ℚ) + 1 ≤ (tend - t0) / dt := by
        rw [le_div_iff₀ hdt]; linarith
      have hq2 : ((L.length - 2 : ℕ) : ℚ) + 1 ≤ (c : ℚ) := le_trans hq hle
      have hq3 : (L.length - 2) + 1 ≤ c := by exact_mod_cast hq2
      omega
  refine ⟨L, ?_, s1, s2, s3, s4 hfuel⟩
  unfold fdaeGrid
  simp only [hceil, ← hc, ← hn, ← hL]
  rw [if_neg (by omega)]

/-- non-vacuity: [0, 1] with step 3/10 under the fdae rule: 0, 0.3, 0.6, 0.9, 1 (the last step is shortened) -/
example : fdaeGrid ratO 0 1 (3/10) (1/4503599627370496) (1 + 1/1000000000) = .ok [0, 3/10, 6/10, 9/10, 1] := by decide +kernel

/-- non-vacuity: [0, 1] with step 3/10 → grid 0, 0.3, 0.6, 0.9, 1.2 (overshoot < one step) -/
example : fixedGrid ratO 0 1 (3/10) = .ok [0, 3/10, 6/10, 9/10, 12/10] := by decide +kernel

/-- **fdae_solver grid, as coded now** (grid point `t0 + k·h`, absolute end-test allowance): in exact arithmetic it is the grid of
`C12_fdae_grid` with slack `1 + slackAbs`, so the same statement holds for it -/
theorem C12_fdae_grid_as_coded (t0 tend h uround slackAbs : ℚ) (hh : 0 < h) (hs : 0 ≤ slackAbs) (hspan : t0 < tend) :
    ∃ L : List ℚ, fdaeGridK ratO (fun _ => 0) t0 tend h uround slackAbs = .ok (t0 :: L) ∧
      (∀ x ∈ L, t0 < x ∧ x ≤ tend) ∧ L.Pairwise (· < ·) ∧
      (∀ j, j + 1 < L.length → L[j]? = some (t0 + ((j : ℚ) + 1) * h)) ∧
      (∃ last, L.getLast? = some last ∧ (last = tend ∨ (0 ≤ tend - last ∧ tend - last < uround))) := by
  have key := fdaeLoopK_eq t0 tend h uround slackAbs (max (ratO.ceil (ratO.div (ratO.sub tend t0) h) + 1000) 10000) 0
  simp only [Nat.cast_zero, zero_mul, add_zero] at key
  have hg : fdaeGridK ratO (fun _ => 0) t0 tend h uround slackAbs = fdaeGrid ratO t0 tend h uround (1 + slackAbs) := by
    simp only [fdaeGridK, fdaeGrid, key]
  rw [hg]
  exact C12_fdae_grid t0 tend h uround (1 + slackAbs) hh (by linarith) hspan

/-- **Grid of backward_euler / implicit_trapezoid, as coded now** (grid point `t0 + k·dt`): the statement of `C12_fixed_grid` holds
for it — in exact arithmetic the two grids coincide (`fixedGridK_eq`); in floating point the new one carries no accumulated rounding,
which is what keeps the step count below the buffer size at large |t0| (D58) -/
theorem C12_fixed_grid_as_coded (t0 tend dt : ℚ) (hdt : 0 < dt) (hspan : t0 ≤ tend) :
    ∃ n : ℕ, fixedGridK ratO t0 tend dt = .ok (t0 :: (List.range n).map (fun (k : ℕ) => t0 + ((k : ℚ) + 1) * dt))
      ∧ (∀ k, k < n → dt / 10 < tend - (t0 + (k : ℚ) * dt))
      ∧ tend - (t0 + (n : ℚ) * dt) ≤ dt / 10
      ∧ (n : ℤ) ≤ ⌊(tend - t0) / dt⌋ + 1 := by
  rw [fixedGridK_eq]
  exact C12_fixed_grid t0 tend dt hdt hspan

end Solverz
