/-
  Properties/C10.lean — event handling of Rodas (controller model).
  Full-strength statement for several components per step is FALSE on the current code
  (known finding D11); proved here: what holds for every step, plus the single-component statements.
-/
import SolverzModel.Core.Ctl.Rodas
import SolverzModel.Proofs.Rodas
import SolverzModel.Proofs.RodasEvents
namespace Solverz
open RodasEnv

/-- **Bracket invariant**: the located event time never leaves the bracket the bisection started
from (`told ≤ tevent ≤ t` when the secant start lies in the step) — exact arithmetic. -/
theorem C10_bracket_invariant (E : RodasEnv ℚ) (hO : E.O = ratO) (hh : E.half = 1 / 2) (i : Nat) (tol : ℚ) (fuel : Nat)
    (st : ℚ × ℚ × ℚ × ℚ × ℚ) (le : Option ℚ) (h1 : st.1 ≤ st.2.2.1) (h2 : st.2.2.1 ≤ st.2.1) :
    st.1 ≤ (E.bisect i tol fuel st le).1 ∧ (E.bisect i tol fuel st le).1 ≤ st.2.1 :=
  bisect_bracket E hO hh i tol fuel st le h1 h2

/-- **Direction.**  Every event the event block records belongs to a component whose sign change
passed the direction filter; reported events are only ever prepended (nothing is rewritten). -/
theorem C10_direction {α} (E : RodasEnv α) (dt : α) (vo vn : List α) (ff : List Nat) (s : RodasState α) :
    ∃ new : List (α × Nat), (E.eventLoop dt vo vn ff s).te = new.map (·.1) ++ s.te ∧
      (E.eventLoop dt vo vn ff s).ie = new.map (·.2) ++ s.ie ∧
      (∀ p ∈ new, p.2 ∈ ff ∧ E.detect vo vn p.2 = true) := by
  obtain ⟨_, _, new, h1, h2, h3, _⟩ := eventLoop_spec E dt vo vn ff s
  exact ⟨new, h1, h2, h3⟩

/-- **Detecting events never perturbs the trajectory** when no permitted sign change occurs: the
state after the event block is the state before it (time, step, output, counters — everything). -/
theorem C10_no_event_no_effect {α} (E : RodasEnv α) (dt : α) (vo vn : List α) (ff : List Nat) (s : RodasState α)
    (h : ∀ i ∈ ff, E.detect vo vn i = false) : E.eventLoop dt vo vn ff s = s :=
  eventLoop_no_detect E dt vo vn ff s h

/-- **Terminal event.**  If the event block raises `stop`, the last event it recorded is terminal and
the step has been truncated exactly at its time (so the run ends with `t = te[-1]`). -/
theorem C10_terminal_ends_at_event {α} (E : RodasEnv α) (dt : α) (vo vn : List α) (ff : List Nat) (s : RodasState α)
    (hs : s.stop = false) (hstop : (E.eventLoop dt vo vn ff s).stop = true) :
    ∃ p : α × Nat, E.isTerminal p.2 = true ∧ (E.eventLoop dt vo vn ff s).t = p.1 ∧
      (E.eventLoop dt vo vn ff s).te.head? = some p.1 := by
  obtain ⟨_, _, new, h1, _, _, h6⟩ := eventLoop_spec E dt vo vn ff s
  rcases h6 hstop with h | ⟨p, hp, ht, hpt⟩
  · rw [hs] at h; cases h
  · refine ⟨p, ht, hpt, ?_⟩
    rw [h1]
    cases new with
    | nil => simp at hp
    | cons q qs => simp at hp; subst hp; simp

/-- the full-strength multi-component statement (ascending `te`) fails on the model of the current
code: two non-terminal components crossing at 0.35 and 0.30 inside one step [0, 1] come out in
index order -/
theorem C10_multi_full_false :
    let E : RodasEnv ℚ := { O := ratO, spacing := fun _ => 0, uround := 0, tiny := 0, half := 1/2, c128 := 128,
                            tspan := [0, 1], opt := ⟨1/5, 6, 6, none, none, false, 0⟩,
                            events := [⟨35/100, 0, false⟩, ⟨30/100, 0, false⟩] }
    let s : RodasState ℚ := { E.init with t := 1, told := 0 }
    ((E.eventLoop 1 (E.evalEvents 0) (E.evalEvents 1) [0, 1] s).te.reverse.map (fun x => decide (x < 32/100)))
      = [false, true] := by decide +kernel

/-- a crossing within `event_duration` after the start of an accepted step **is** reported (and a terminal one stops the run)
unless that step starts at `t0` or at the event just located — the repaired guard (fix for finding D22): component crossing at
1 + 10⁻⁹ inside the step [1, 2] of a run over [0, 3], `event_duration = 10⁻⁸` -/
theorem C10_near_start_reported :
    let E : RodasEnv ℚ := { O := ratO, spacing := fun _ => 0, uround := 0, tiny := 0, half := 1/2, c128 := 128,
                            tspan := [0, 3], opt := ⟨1/5, 6, 6, none, none, false, 1/100000000⟩,
                            events := [⟨1 + 1/1000000000, 0, true⟩] }
    let s : RodasState ℚ := { E.init with t := 2, told := 1 }
    (E.eventLoop 1 (E.evalEvents 1) (E.evalEvents 2) [0] s).te = [1 + 1/1000000000] ∧
    (E.eventLoop 1 (E.evalEvents 1) (E.evalEvents 2) [0] s).stop = true := by
  decide +kernel

/-- the guard still applies where it is meant to: directly after the start of the run (a restart from an event state) a sign
change within `event_duration` is taken to be that event and is not reported again -/
theorem C10_start_guard :
    let E : RodasEnv ℚ := { O := ratO, spacing := fun _ => 0, uround := 0, tiny := 0, half := 1/2, c128 := 128,
                            tspan := [0, 1], opt := ⟨1/5, 6, 6, none, none, false, 1/100000000⟩,
                            events := [⟨1/1000000000, 0, true⟩] }
    let s : RodasState ℚ := { E.init with t := 1, told := 0 }
    (E.eventLoop 1 (E.evalEvents 0) (E.evalEvents 1) [0] s).te = [] ∧ (E.eventLoop 1 (E.evalEvents 0) (E.evalEvents 1) [0] s).stop = false := by
  decide +kernel

/-- soundness across steps (D25): whichever way the event block of an accepted step is left — nothing detected, events recorded,
a terminal event, or an event abandoned because it lies within `event_duration` of the start — the values the next step compares
with are the event functions at the end of the step just taken, never an intermediate evaluation of the bisection.  A sign change
seen by the next step is therefore a sign change between two step ends. -/
theorem C10_value_is_step_end {α : Type} (E : RodasEnv α) (dt : α) (s : RodasState α) (h : E.events.isEmpty = false) :
    (E.doEvents dt s).value = E.evalEvents s.t := by
  rw [E.doEvents_value, h]; rfl

/-- the hypothesis is satisfiable and the statement is about a run that abandons an event: the start-guard example above -/
example :
    let E : RodasEnv ℚ := { O := ratO, spacing := fun _ => 0, uround := 0, tiny := 0, half := 1/2, c128 := 128,
                            tspan := [0, 1], opt := ⟨1/5, 6, 6, none, none, false, 1/100000000⟩,
                            events := [⟨1/1000000000, 0, true⟩] }
    let s : RodasState ℚ := { E.init with t := 1, told := 0 }
    E.events.isEmpty = false ∧ (E.doEvents 1 s).te = [] ∧ (E.doEvents 1 s).value = [1 - 1/1000000000] := by
  decide +kernel

/-- the reference a component is compared with: its value at the last step end, unless that is exactly zero — then the reference it
had before (so −, 0, + is seen as a sign change on the step that leaves the zero) -/
theorem C10_reference_value {α : Type} (E : RodasEnv α) (s : RodasState α) (i : Nat) (hv : i < s.value.length) (hr : i < s.vref.length) :
    (E.refValues s).getD i E.O.zero =
      if E.isZero (s.value.getD i E.O.zero) then s.vref.getD i E.O.zero else s.value.getD i E.O.zero := by
  unfold refValues
  have hl : i < (List.zipWith (fun v r => if E.isZero v then r else v) s.value s.vref).length := by
    simp [List.length_zipWith]; omega
  simp [List.getD_eq_getElem?_getD, List.getElem?_eq_getElem hl, List.getElem?_eq_getElem hv, List.getElem?_eq_getElem hr]

/-- a component is examined by the event block exactly when its value at the new step end and its reference have strictly opposite
signs -/
theorem C10_crossings_iff {α : Type} (E : RodasEnv α) (s : RodasState α) (i : Nat) :
    i ∈ E.crossings s ↔ i < E.events.length ∧
      E.opp ((E.evalEvents s.t).getD i E.O.zero) ((E.refValues s).getD i E.O.zero) = true := by
  unfold crossings; simp [List.mem_filter]

/-- over ℚ: g(t) = t − 1/2 with steps ending at 0, 1/2 (exactly on the zero) and 1.  The step that reaches the zero sees no sign
change, the step that leaves it does, and the event is recorded once, within 2⁻⁹⁰ of the crossing -/
theorem C10_zero_at_step_end_reported :
    let E : RodasEnv ℚ := { O := ratO, spacing := fun _ => 0, uround := 0, tiny := 0, half := 1/2, c128 := 128,
                            tspan := [0, 1], opt := ⟨1/5, 6, 6, none, none, false, 1/100000000⟩,
                            events := [⟨1/2, 0, false⟩] }
    let s1 : RodasState ℚ := E.doEvents (1/2) { E.init with t := 1/2, told := 0 }
    let s2 : RodasState ℚ := E.doEvents (1/2) { s1 with t := 1, told := 1/2 }
    s1.te = [] ∧ s1.value = [0] ∧ s1.vref = [-1/2] ∧ s2.te.length = 1 ∧
      (s2.te.all fun τ => decide (1/2 ≤ τ ∧ τ ≤ 1/2 + 1/1000000000000000000000000000)) = true := by
  decide +kernel

/-! ### arbitrary event functions (`gfun`): what `event(t, y_dense(t))` is along one accepted step -/

/-- **Soundness of the search for every event function.**  Start the bisection from a bracket `[tL, tR]` whose end values are the
event function's and have strictly opposite signs, with any trial point inside (the secant start).  Whatever the function does in
between — non-monotone, several zeros, discontinuous —, the returned time lies in a sub-bracket `[a, b] ⊆ [tL, tR]` across which
component `i` genuinely changes sign, and either the returned time is an exact zero, or `b − a < tol`, or the 100 passes are used up
and `b − a ≤ (tR − tL) / 2^(fuel − 1)`. -/
theorem C10_search_sound (E : RodasEnv ℚ) (hO : E.O = ratO) (hh : E.half = 1 / 2) (i : Nat) (tol : ℚ) (fuel : Nat)
    (tL tR tev : ℚ) (le : Option ℚ) (h1 : tL ≤ tev) (h2 : tev ≤ tR)
    (hopp : E.opp (E.evalAt i tL) (E.evalAt i tR) = true) :
    ∃ a b, tL ≤ a ∧ a ≤ (E.bisect i tol fuel (tL, tR, tev, E.evalAt i tL, E.evalAt i tR) le).1 ∧
      (E.bisect i tol fuel (tL, tR, tev, E.evalAt i tL, E.evalAt i tR) le).1 ≤ b ∧ b ≤ tR ∧
      E.opp (E.evalAt i a) (E.evalAt i b) = true ∧
      (E.evalAt i (E.bisect i tol fuel (tL, tR, tev, E.evalAt i tL, E.evalAt i tR) le).1 = 0 ∨ b - a < tol ∨
        b - a ≤ (tR - tL) / 2 ^ (fuel - 1)) := by
  obtain ⟨a, b, ⟨l1, l2, l3, l4, l5⟩, hfin⟩ :=
    bisect_located E hO hh i tol fuel (tL, tR, tev, E.evalAt i tL, E.evalAt i tR) le ⟨h1, h2, rfl, rfl, hopp⟩
  exact ⟨a, b, l1, l2, l3, l4, l5, hfin⟩

/-- the tolerance `locate` hands to the bisection: `min(128·max(|spacing told|, |spacing t|), |t − told|)` -/
def locTol (E : RodasEnv ℚ) (s : RodasState ℚ) : ℚ :=
  E.omin (E.O.mul E.c128 (E.omax (E.O.abs (E.spacing s.told)) (E.O.abs (E.spacing s.t)))) (E.O.abs (E.O.sub s.t s.told))

/-- **`locate` is sound for every event function**: on an accepted step `[told, t]` of length `dt` whose end values of component
`i` have strictly opposite signs, the secant start lies inside the step, the search is entered, and the time it returns lies in a
sub-interval of the step across which the component changes sign — of width below the tolerance (or 2⁻⁹⁹ of the step), unless the
returned time is an exact zero. -/
theorem C10_locate_sound (E : RodasEnv ℚ) (hO : E.O = ratO) (hh : E.half = 1 / 2) (i : Nat) (s : RodasState ℚ) (dt : ℚ)
    (hdt : dt = s.t - s.told) (ht : s.told ≤ s.t) (hopp : E.opp (E.evalAt i s.told) (E.evalAt i s.t) = true) :
    ∃ a b, s.told ≤ a ∧ a ≤ (E.locate dt s (E.evalAt i s.told) (E.evalAt i s.t) i).1 ∧
      (E.locate dt s (E.evalAt i s.told) (E.evalAt i s.t) i).1 ≤ b ∧ b ≤ s.t ∧
      E.opp (E.evalAt i a) (E.evalAt i b) = true ∧
      (E.evalAt i (E.locate dt s (E.evalAt i s.told) (E.evalAt i s.t) i).1 = 0 ∨ b - a < locTol E s ∨
        b - a ≤ (s.t - s.told) / 2 ^ 99) := by
  have hle : ∀ x y : ℚ, E.O.le x y = decide (x ≤ y) := by intro x y; rw [hO]; rfl
  have hsub : ∀ a b : ℚ, E.O.sub a b = a - b := by intro a b; rw [hO]; rfl
  have hmul : ∀ a b : ℚ, E.O.mul a b = a * b := by intro a b; rw [hO]; rfl
  have hdiv : ∀ a b : ℚ, E.O.div a b = a / b := by intro a b; rw [hO]; rfl
  have hsign := (opp_iff E hO _ _).mp hopp
  have hne : (!(E.O.le (E.evalAt i s.t) (E.evalAt i s.told) && E.O.le (E.evalAt i s.told) (E.evalAt i s.t))) = true := by
    rcases hsign with ⟨a, b⟩ | ⟨a, b⟩
    · have : ¬ (E.evalAt i s.told ≤ E.evalAt i s.t) := by linarith
      simp [hle, this]
    · have : ¬ (E.evalAt i s.t ≤ E.evalAt i s.told) := by linarith
      simp [hle, this]
  have hsec := secant_inside s.told s.t _ _ ht hsign
  unfold locate
  unfold locTol
  simp only [hne, if_true, hsub, hmul, hdiv, hdt]
  exact C10_search_sound E hO hh i _ 100 s.told s.t _ none hsec.1 hsec.2 hopp

/-- a single detected component: the event block records exactly the time `locate` returns and truncates the step there
(terminal or not), unless the guard for the start of the run applies -/
theorem C10_single_component_recorded {α : Type} (E : RodasEnv α) (dt : α) (vo vn : List α) (i : Nat) (s : RodasState α)
    (hdet : E.detect vo vn i = true)
    (hfar : E.tooClose s (E.locate dt s (vo.getD i E.O.zero) (vn.getD i E.O.zero) i).1 = false) :
    (E.eventLoop dt vo vn [i] s).te = (E.locate dt s (vo.getD i E.O.zero) (vn.getD i E.O.zero) i).1 :: s.te ∧
    (E.eventLoop dt vo vn [i] s).ie = i :: s.ie ∧
    (E.eventLoop dt vo vn [i] s).t = (E.locate dt s (vo.getD i E.O.zero) (vn.getD i E.O.zero) i).1 := by
  by_cases hterm : E.isTerminal i = true
  · simp only [eventLoop, hdet, hfar, hterm, Bool.not_true, Bool.false_eq_true, if_false, if_true]
    exact ⟨rfl, rfl, rfl⟩
  · have hterm' : E.isTerminal i = false := by simpa using hterm
    simp only [eventLoop, hdet, hfar, hterm', Bool.not_true, Bool.false_eq_true, if_false]
    exact ⟨rfl, rfl, rfl⟩

/-- the hypotheses are satisfiable and the conclusion is about a real search: g(τ) = (τ − 3/10)(τ − 7/10) (non-monotone, two zeros)
on the step [0, 1/2]: end values 21/100 and −4/100, the secant start is not the zero, the bisection iterates, and the recorded
time is within 2⁻³⁰ of the falling crossing at 3/10 -/
example :
    let E : RodasEnv ℚ := { O := ratO, spacing := fun _ => 1 / 2 ^ 40, uround := 0, tiny := 0, half := 1/2, c128 := 128,
                            tspan := [0, 1], opt := ⟨1/5, 6, 6, none, none, false, 1/100000000⟩,
                            events := [⟨0, 0, false⟩], gfun := some fun _ τ => (τ - 3/10) * (τ - 7/10) }
    let s : RodasState ℚ := { E.init with t := 1/2, told := 0 }
    E.opp (E.evalAt 0 s.told) (E.evalAt 0 s.t) = true ∧ E.evalAt 0 0 = 21/100 ∧
      (E.doEvents (1/2) s).te.length = 1 ∧
      ((E.doEvents (1/2) s).te.all fun τ => decide (3/10 - 1/2^30 ≤ τ ∧ τ ≤ 3/10 + 1/2^30 ∧ τ ≠ 3/10)) = true := by
  decide +kernel

/-! ### from detection to location -/

theorem C10_crossing_is_genuine {α : Type} (E : RodasEnv α) (s : RodasState α) (i : Nat)
    (hval : s.value = E.evalEvents s.told) (hlen : s.vref.length = s.value.length)
    (hnz : E.isZero (E.evalAt i s.told) = false) (hi : i ∈ E.crossings s) :
    E.opp (E.evalAt i s.t) (E.evalAt i s.told) = true := by
  obtain ⟨hlt, hopp⟩ := (C10_crossings_iff E s i).mp hi
  have hv : i < s.value.length := by rw [hval, evalEvents_length]; exact hlt
  have hr : i < s.vref.length := by rw [hlen]; exact hv
  rw [C10_reference_value E s i hv hr] at hopp
  have e : s.value.getD i E.O.zero = E.evalAt i s.told := by rw [hval]; rfl
  rw [e, hnz] at hopp
  simpa [evalAt] using hopp

/-- **From detection to location, for every event function** (ℚ): on a step whose stored values are those of its start, a component
the event block examines (not exactly zero at the start) genuinely changes sign over the step, and the time `locate` returns for it
lies in a sub-interval of the step across which it changes sign, narrower than the location tolerance (or 2⁻⁹⁹ of the step) unless the
returned time is an exact zero -/
theorem C10_examined_component_located (E : RodasEnv ℚ) (hO : E.O = ratO) (hh : E.half = 1 / 2) (s : RodasState ℚ) (i : Nat)
    (hval : s.value = E.evalEvents s.told) (hlen : s.vref.length = s.value.length)
    (hnz : E.isZero (E.evalAt i s.told) = false) (hi : i ∈ E.crossings s) (ht : s.told ≤ s.t) :
    ∃ a b, s.told ≤ a ∧ a ≤ (E.locate (s.t - s.told) s (E.evalAt i s.told) (E.evalAt i s.t) i).1 ∧
      (E.locate (s.t - s.told) s (E.evalAt i s.told) (E.evalAt i s.t) i).1 ≤ b ∧ b ≤ s.t ∧
      E.opp (E.evalAt i a) (E.evalAt i b) = true ∧
      (E.evalAt i (E.locate (s.t - s.told) s (E.evalAt i s.told) (E.evalAt i s.t) i).1 = 0 ∨ b - a < locTol E s ∨
        b - a ≤ (s.t - s.told) / 2 ^ 99) := by
  have h := C10_crossing_is_genuine E s i hval hlen hnz hi
  have h' : E.opp (E.evalAt i s.told) (E.evalAt i s.t) = true := by
    rw [opp_iff E hO] at h ⊢; tauto
  exact C10_locate_sound E hO hh i s (s.t - s.told) rfl ht h'

/-- the hypotheses hold on a real step: g(τ) = (τ − 3/10)(τ − 7/10) on the first step [0, 1/2] of a run -/
example :
    let E : RodasEnv ℚ := { O := ratO, spacing := fun _ => 1 / 2 ^ 40, uround := 0, tiny := 0, half := 1/2, c128 := 128,
                            tspan := [0, 1], opt := ⟨1/5, 6, 6, none, none, false, 1/100000000⟩,
                            events := [⟨0, 0, false⟩], gfun := some fun _ τ => (τ - 3/10) * (τ - 7/10) }
    let s : RodasState ℚ := { E.init with t := 1/2, told := 0 }
    s.value = E.evalEvents s.told ∧ s.vref.length = s.value.length ∧ E.isZero (E.evalAt 0 s.told) = false ∧ 0 ∈ E.crossings s ∧
      s.told ≤ s.t := by
  decide +kernel

/-- the search for the event time no longer depends on the scale of the event function: for every scale c > 0 the values c·v0 < 0 < c·v1
differ, so the secant start and the bisection are entered (before the repair `|v1 − v0| > uround` skipped them for small c) -/
theorem C10_search_entered_at_any_scale (E : RodasEnv ℚ) (hO : E.O = ratO) (v0 v1 c : ℚ) (h0 : v0 < 0) (h1 : 0 < v1) (hc : 0 < c) :
    (!(E.O.le (c * v1) (c * v0) && E.O.le (c * v0) (c * v1))) = true := by
  have hle : ∀ a b : ℚ, E.O.le a b = decide (a ≤ b) := by intro a b; rw [hO]; rfl
  have : c * v0 < c * v1 := by nlinarith
  simp [hle, not_le.mpr this]

end Solverz
