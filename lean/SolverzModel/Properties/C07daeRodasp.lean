import SolverzModel.Properties.C07daeDefs
namespace Solverz
open Generated
set_option maxRecDepth 100000

/-! ### rodasp -/
theorem C07dae_rodasp_y : daeOK rodasp rodasp.b (DF.yTreesUpTo 4) = true := by decide +kernel
theorem C07dae_rodasp_z : daeOK rodasp rodasp.b (DF.zTreesUpTo 4) = true := by decide +kernel
theorem C07dae_rodasp_embedded : daeOK rodasp rodasp.bd (DF.yTreesUpTo 3) = true ∧ daeOK rodasp rodasp.bd (DF.zTreesUpTo 3) = true := by
  decide +kernel


end Solverz
