/-
  Properties/C11.lean — DaeIc leaves the states untouched and returns only consistent points.
-/
import SolverzModel.Core.Ctl.DaeIc
import SolverzModel.Proofs.Vars
import Mathlib.Tactic.Linarith
namespace Solverz

theorem scatter_untouched {α} (y : List α) (idx : List Nat) (vals : List α) (i : Nat) (hi : i ∉ idx) :
    (scatter y idx vals)[i]? = y[i]? := by
  induction idx generalizing y vals with
  | nil => simp [scatter]
  | cons j js ih =>
    cases vals with
    | nil => simp [scatter]
    | cons v vs =>
      simp only [scatter]
      rw [ih (setAt y j v) vs (by intro h; exact hi (List.mem_cons_of_mem _ h))]
      exact Heap.getElem?_setAt_ne y j i v (by intro h; exact hi (h ▸ List.mem_cons_self))

/-- invariant of the probe loop: the candidate differs from `y` only at algebraic positions, the
reported residual norm is the residual norm *of the candidate*, and exit B means it is ≤ rtolB -/
def ProbeInv {α} (O : OFld α) (or : IcOracle α) (algVar : List Nat) (rtolB : α) (y : List α)
    (r : Bool × List α × α × α) : Prop :=
  (∀ i, i ∉ algVar → r.2.1[i]? = y[i]?) ∧ (r.1 = true → O.le (or.algRes r.2.1) rtolB = true) ∧
  (r.1 = false → r.2.2.2 = or.algRes r.2.1 ∨ r.2.1 = y)

theorem icProbe_inv {α} (O : OFld α) (or : IcOracle α) (algVar : List Nat) (rtolB : α) (y dY base : List α) (res : α)
    (k : Nat) (lam : α) (acc : Bool × List α × α × α)
    (hacc : (∀ i, i ∉ algVar → acc.2.1[i]? = y[i]?) ∧ acc.1 = false ∧ (acc.2.2.2 = or.algRes acc.2.1 ∨ (k = 0 → False) ∧ acc.2.1 = y)) :
    (∀ i, i ∉ algVar → (icProbe O or algVar rtolB y dY base res k lam acc).2.1[i]? = y[i]?) ∧
    ((icProbe O or algVar rtolB y dY base res k lam acc).1 = true →
        O.le (or.algRes (icProbe O or algVar rtolB y dY base res k lam acc).2.1) rtolB = true) ∧
    ((icProbe O or algVar rtolB y dY base res k lam acc).1 = false →
        (icProbe O or algVar rtolB y dY base res k lam acc).2.2.2 = or.algRes (icProbe O or algVar rtolB y dY base res k lam acc).2.1) := by
  induction k generalizing lam acc with
  | zero =>
    simp only [icProbe]
    refine ⟨hacc.1, (by intro h; rw [hacc.2.1] at h; cases h), ?_⟩
    intro _
    rcases hacc.2.2 with h | h
    · exact h
    · exact absurd rfl (fun e => h.1 e)
  | succ k ih =>
    simp only [icProbe]
    have hun : ∀ i, i ∉ algVar →
        (scatter y algVar (List.zipWith (fun b d => O.add b (O.mul lam d)) base dY))[i]? = y[i]? :=
      fun i hi => scatter_untouched y algVar _ i hi
    split
    · rename_i hle
      exact ⟨hun, fun _ => hle, (by intro h; cases h)⟩
    · split
      · exact ⟨hun, (by intro h; cases h), fun _ => rfl⟩
      · exact ih _ _ ⟨hun, rfl, Or.inl rfl⟩

/-- **States untouched.**  Whatever the residuals and linear solves return, a point returned by
`DaeIc` agrees with the input at every position that is not an algebraic variable. -/
theorem C11_states_untouched {α} (O : OFld α) (or : IcOracle α) (algVar : List Nat) (tolA rtolB rtolC : α)
    (y0 y : List α) (e : IcExit) (h : daeIc O or algVar tolA rtolB rtolC y0 = .ok (y, e)) :
    ∀ i, i ∉ algVar → y[i]? = y0[i]? := by
  unfold daeIc at h
  split at h
  · cases h; intro i _; rfl
  · have key : ∀ (n : Nat) (ys : List α), (∀ i, i ∉ algVar → ys[i]? = y0[i]?) →
        icLoop O or algVar tolA rtolB rtolC n ys = .ok (y, e) → ∀ i, i ∉ algVar → y[i]? = y0[i]? := by
      intro n
      induction n with
      | zero => intro ys _ hl; simp [icLoop] at hl
      | succ n ih =>
        intro ys hys hl
        simp only [icLoop] at hl
        have hp := icProbe_inv O or algVar rtolB ys (or.dir ys) (gather ys O.zero algVar)
          (or.relNorm (or.dir ys) (gather ys O.zero algVar)) 3 O.one (false, ys, O.zero, O.zero)
          ⟨fun i _ => rfl, rfl, Or.inr ⟨by omega, rfl⟩⟩
        generalize icProbe O or algVar rtolB ys (or.dir ys) (gather ys O.zero algVar)
          (or.relNorm (or.dir ys) (gather ys O.zero algVar)) 3 O.one (false, ys, O.zero, O.zero) = r at hp hl
        obtain ⟨b, ynew, resnew, fnew⟩ := r
        simp only at hl hp
        have hyn : ∀ i, i ∉ algVar → ynew[i]? = y0[i]? := fun i hi => (hp.1 i hi).trans (hys i hi)
        split at hl
        · cases hl; exact hyn
        · split at hl
          · cases hl; exact hyn
          · exact ih ynew hyn hl
    exact key 15 y0 (fun i _ => rfl) h

/-- **Only consistent points are returned.**  Exit A and C return a point whose algebraic residual
norm is ≤ tolA (= 1e-6), exit B one with residual ≤ rtolB (= 1e-5·rtol); there is no other way to
return (everything else is the error "Need Better y0"). -/
theorem C11_consistent {α} (O : OFld α) (or : IcOracle α) (algVar : List Nat) (tolA rtolB rtolC : α)
    (y0 y : List α) (e : IcExit) (h : daeIc O or algVar tolA rtolB rtolC y0 = .ok (y, e)) :
    (e = .B → O.le (or.algRes y) rtolB = true) ∧ (e ≠ .B → O.le (or.algRes y) tolA = true) := by
  unfold daeIc at h
  split at h
  · rename_i hA
    cases h
    exact ⟨(by intro h; cases h), fun _ => hA⟩
  · have key : ∀ (n : Nat) (ys : List α), icLoop O or algVar tolA rtolB rtolC n ys = .ok (y, e) →
        (e = .B → O.le (or.algRes y) rtolB = true) ∧ (e ≠ .B → O.le (or.algRes y) tolA = true) := by
      intro n
      induction n with
      | zero => intro ys hl; simp [icLoop] at hl
      | succ n ih =>
        intro ys hl
        simp only [icLoop] at hl
        have hp := icProbe_inv O or algVar rtolB ys (or.dir ys) (gather ys O.zero algVar)
          (or.relNorm (or.dir ys) (gather ys O.zero algVar)) 3 O.one (false, ys, O.zero, O.zero)
          ⟨fun i _ => rfl, rfl, Or.inr ⟨by omega, rfl⟩⟩
        generalize icProbe O or algVar rtolB ys (or.dir ys) (gather ys O.zero algVar)
          (or.relNorm (or.dir ys) (gather ys O.zero algVar)) 3 O.one (false, ys, O.zero, O.zero) = r at hp hl
        obtain ⟨b, ynew, resnew, fnew⟩ := r
        simp only at hl hp
        split at hl
        · rename_i hb
          cases hl
          exact ⟨fun _ => hp.2.1 hb, fun h => absurd rfl h⟩
        · rename_i hb
          split at hl
          · rename_i hC
            cases hl
            have hf : fnew = or.algRes y := hp.2.2 (by simpa using hb)
            simp only [Bool.and_eq_true] at hC
            exact ⟨(by intro h; cases h), fun _ => hf ▸ hC.2⟩
          · exact ih ynew hl
    exact key 15 y0 h

/-- non-vacuity: on `0 = z − x` with x = 1, z = 3 the Newton direction is exact; exit B at once,
x untouched -/
example : (match daeIc ratO
    { algRes := fun y => ratO.abs (y.getD 1 0 - y.getD 0 0), dir := fun y => [y.getD 0 0 - y.getD 1 0],
      dirAt := fun y => [y.getD 1 0 - y.getD 0 0], relNorm := fun d b => ratO.abs (d.getD 0 0 / b.getD 0 1) }
    [1] (1/1000000) (1/100000000) (1/1000000) [1, 3] with
    | .ok (y, e) => y == [1, 1] && e == IcExit.B | .error _ => false) = true := by decide +kernel

/-- the threshold is fixed: with the acceptance bound of the Newton branch `rtolB = min(1e-5·rtol, 1e-6) ≤ tolA = 1e-6` (what the code
uses now; before the repair `rtolB = 1e-5·rtol` exceeded 1e-6 for rtol > 0.1) every returned point has algebraic residual ≤ 1e-6,
whatever exit was taken and whatever rtol is -/
theorem C11_fixed_threshold (or : IcOracle ℚ) (algVar : List Nat) (tolA rtolB rtolC : ℚ) (hB : rtolB ≤ tolA)
    (y0 y : List ℚ) (e : IcExit) (h : daeIc ratO or algVar tolA rtolB rtolC y0 = .ok (y, e)) :
    or.algRes y ≤ tolA := by
  have hc := C11_consistent ratO or algVar tolA rtolB rtolC y0 y e h
  have hle : ∀ a b : ℚ, ratO.le a b = true ↔ a ≤ b := by intro a b; simp [ratO]
  by_cases he : e = .B
  · exact le_trans ((hle _ _).mp (hc.1 he)) hB
  · exact (hle _ _).mp (hc.2 he)

/-- the bound the code computes satisfies the hypothesis for every rtol -/
example (rtol : ℚ) : min (rtol / 100000) (1 / 1000000) ≤ (1 / 1000000 : ℚ) := min_le_right _ _

end Solverz
