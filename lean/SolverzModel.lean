import SolverzModel.Core.Basic
import SolverzModel.Core.Address
import SolverzModel.Core.Vars
import SolverzModel.Driver.Util
import SolverzModel.Driver.C16
import SolverzModel.Core.Mass
import SolverzModel.Driver.C04
